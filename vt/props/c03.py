"""C03 - likelihood accuracy does not degrade with tree size (no silent underflow)."""
import math
import random
import sys

import numpy as np
import torch
from hypothesis import strategies as st

from vt import tt
from vt.cmp import arr
from vt.gen.basic import fl, logu, simplex
from vt.gen.trees import Topo
from vt.oracle import like as OL
from vt.oracle import sitecat
from vt.runner import Res, Sub

sys.setrecursionlimit(100000)

PROPERTY = "C03"
LEVEL = "exploration"
RULE = (
    "Case = (tree shape in caterpillar/balanced/random-join, model in JC69/HKY/GTR x constant/Weibull(4), 1-4 sites whose tip symbols are a "
    "pure function of a generated integer, branch lengths from a generated palette of <= 4 values times a scale, target band). The number of "
    "taxa is *aimed* by bisection on the extended-range reference so that the smallest per-site log-likelihood falls in the chosen band: "
    "comfortable (> -650), just above the smallest normal double (-708..-700), sub-normal band (-745..-708), just beyond (-760..-745), far "
    "beyond (<= -1500). The model is built from JSON (UnRootedTreeModel with explicit branch lengths) and compared with numpy pruning using "
    "per-node log scalers (audited by 40-digit mpmath pruning on a sample) at relative 1e-8. Histories: a generated sequence of "
    "evaluate / scale all branches by c / change kappa / batched evaluation with rows on both sides of the threshold / fresh copy with "
    "rescaling forced on; every evaluation is compared with the reference. Non-trivial = band at or below -700, or a history with an "
    "evaluation after rescaling has switched on. Distinct = (shape, model, site model, n, band, palette) / operation sequence. "
    "Sub-check 'band_sweep' (thorough) evaluates every n across the band for 3 shapes x 3 models."
)
ASSUMPTIONS = [
    "reference = numpy pruning with per-node log scalers; audited against mpmath (40 digits) in sub-check audit_oracle",
    "branch lengths take at most 4 distinct values per case so that the reference can cache P(t)",
    "float64 only (the float32 threshold path is not exercised)",
]

BANDS = {"comfortable": (-650.0, -50.0), "above_normal": (-708.0, -700.0), "subnormal": (-745.0, -708.4), "beyond": (-760.0, -745.5), "far": (-4000.0, -1500.0)}


# ------------------------------------------------------------------ deterministic construction from a case
def nested_shape(shape, n, tseed):
    if shape == "caterpillar":
        t = [0, 1]
        for i in range(2, n):
            t = [t, i]
        return t
    if shape == "balanced":
        def b(lo, hi):
            if hi - lo == 1:
                return lo
            mid = (lo + hi) // 2
            return [b(lo, mid), b(mid, hi)]

        return b(0, n)
    rng = random.Random(tseed)
    parts = list(range(n))
    while len(parts) > 1:
        i = rng.randrange(len(parts))
        a = parts.pop(i)
        j = rng.randrange(len(parts))
        b_ = parts.pop(j)
        parts.append([a, b_])
    return parts[0]


def symbols(n, nsites, dseed, pdiff, gaps=0.0):
    """pdiff: one value for all sites, or a list with one value per site (a conserved column next to
    saturated ones gives site likelihoods hundreds of orders of magnitude apart)"""
    rng = random.Random(dseed)
    cols = []
    if isinstance(pdiff, dict):
        # every column is constant except at the last `tail` taxa (the last to join in a caterpillar, one side of the
        # root otherwise): an invariant-sites class keeps probability one over the large conserved part of the tree
        for k in range(nsites):
            base = rng.choice("ACGT")
            cols.append([base if i < n - pdiff["tail"] else rng.choice([x for x in "ACGT" if x != base]) for i in range(n)])
        return cols
    for k in range(nsites):
        pd = pdiff[k % len(pdiff)] if isinstance(pdiff, list) else pdiff
        base = rng.choice("ACGT")
        cols.append([base if rng.random() > pd else rng.choice("ACGT") for _ in range(n)])
    if gaps:
        # missing data: gaps, unknowns and ambiguity codes (all read as 'any state' without use_ambiguities)
        g = random.Random(dseed + 7919)
        for col in cols:
            for i in range(n):
                if g.random() < gaps:
                    col[i] = g.choice("-?NRY")
    return cols


def lengths_for(n, palette, scale, lseed):
    rng = random.Random(lseed)
    return [palette[rng.randrange(len(palette))] * scale for _ in range(2 * n - 3)]


def model_q(m):
    return OL.q_model(m)


def site_cats(s):
    if s["kind"] == "constant":
        return sitecat.categories("constant")
    if s["kind"] == "invariant":
        return sitecat.categories("invariant", pinv=s["pinv"])
    return sitecat.categories("weibull", s["K"], s["shape"], s.get("pinv"))


class Ref:
    """reference evaluator with P(t) cached per distinct t"""

    def __init__(self, c, n):
        self.c = c
        self.n = n
        self.topo = Topo(nested_shape(c["shape"], n, c["tseed"]))
        self.cols = symbols(n, c["nsites"], c["dseed"], c["pdiff"], c.get("gaps", 0.0))
        self.tv = {i: np.array([OL.tip_vector("nucleotide", col[i], "noamb") for col in self.cols]) for i in range(n)}
        self.rates, self.probs = site_cats(c["site"])
        self.cache = {}

    def P(self, Q, t):
        k = (id(Q), t)
        if k not in self.cache:
            from scipy.linalg import expm

            self.cache[k] = expm(Q * t)
        return self.cache[k]

    def loglik(self, lengths, model=None):
        Q, pi = model_q(model or self.c["model"])
        n = self.n
        bl = {i: lengths[i] for i in range(2 * n - 3)}
        bl[2 * n - 3] = 0.0
        sites = len(self.cols)
        Pc = {}
        cat = []
        for rate in self.rates:
            part = {v: t.T for v, t in self.tv.items()}
            logs = np.zeros(sites)
            for node, l, r in self.topo.post:
                kl, kr = bl[l] * rate, bl[r] * rate
                if kl not in Pc:
                    Pc[kl] = self._expm(Q, kl)
                if kr not in Pc:
                    Pc[kr] = self._expm(Q, kr)
                x = (Pc[kl] @ part[l]) * (Pc[kr] @ part[r])
                mx = x.max(0)
                mx = np.where(mx > 0, mx, 1.0)  # a zero-rate class has probability exactly 0 at a variable site
                part[node] = x / mx
                logs = logs + np.log(mx)
            with np.errstate(divide="ignore"):
                cat.append(np.log(pi @ part[self.topo.root]) + logs)
        x = np.array(cat) + np.log(self.probs)[:, None]
        mx = x.max(0)
        ll = mx + np.log(np.exp(x - mx).sum(0))
        return float(ll.sum()), ll

    @staticmethod
    def _expm(Q, t):
        from scipy.linalg import expm

        return expm(Q * t)


def aim_n(c):
    """smallest-site log-likelihood is monotone enough in n for bisection; returns n in the band
    (or the closest reachable)"""
    lo_b, hi_b = BANDS[c["band"]]
    target = 0.5 * (lo_b + hi_b)

    def f(n):
        r = Ref(c, n)
        return min(r.loglik(lengths_for(n, c["palette"], 1.0, c["lseed"]))[1])

    lo, hi = 4, 4000
    # exponential search then bisection on "min site loglik <= target"
    n = 64
    while n < hi and f(n) > target:
        lo = n
        n *= 2
    hi = min(n, hi)
    while hi - lo > 1:
        mid = (lo + hi) // 2
        if f(mid) > target:
            lo = mid
        else:
            hi = mid
    return hi


# ------------------------------------------------------------------ specification
def subst_spec(m):
    if m["name"] == "JC69":
        return {"id": "subst", "type": "JC69"}
    if m["name"] == "HKY":
        return {"id": "subst", "type": "HKY", "kappa": tt.P("kappa", [m["kappa"]]), "frequencies": tt.P("freqs", m["freqs"])}
    return {"id": "subst", "type": "GTR", "rates": tt.P("rates", m["rates"]), "frequencies": tt.P("freqs", m["freqs"])}


def build(c, n, ref, lengths, tip="noamb"):
    # dendropy parses deep caterpillars recursively; Hypothesis lowers the recursion limit while
    # a test runs, so it is raised again here (a limit of the harness, not of the property)
    import warnings

    with warnings.catch_warnings():
        warnings.simplefilter("ignore")
        sys.setrecursionlimit(100000)
    names = ["t%d" % i for i in range(n)]
    taxa = {"id": "taxa", "type": "Taxa", "taxa": [{"id": x, "type": "Taxon"} for x in names]}
    s = c["site"]
    if s["kind"] == "constant":
        site = {"id": "site", "type": "ConstantSiteModel"}
    elif s["kind"] == "invariant":
        site = {"id": "site", "type": "InvariantSiteModel", "invariant": tt.P("pinv", [s["pinv"]])}
    else:
        site = {"id": "site", "type": "WeibullSiteModel", "categories": s["K"], "shape": tt.P("shape", [s["shape"]])}
        if "pinv" in s:
            site["invariant"] = tt.P("pinv", [s["pinv"]])
    spec = {"id": "like", "type": "TreeLikelihoodModel",
            "tree_model": {"id": "tree", "type": "UnRootedTreeModel", "newick": ref.topo.newick(names), "taxa": taxa, "branch_lengths": tt.P("bl", lengths)},
            "site_model": site, "substitution_model": subst_spec(c["model"]),
            "site_pattern": {"id": "sp", "type": "SitePattern", "alignment": {"id": "aln", "type": "Alignment", "datatype": "nucleotide", "taxa": "taxa",
                             "sequences": [{"taxon": names[i], "sequence": "".join(col[i] for col in ref.cols)} for i in range(n)]}},
            "use_tip_states": tip == "states"}
    dic = {}
    tt.build(spec, dic)
    return dic


# ------------------------------------------------------------------ strategies
@st.composite
def base_case(draw, bands=None):
    name = draw(st.sampled_from(["JC69", "HKY", "GTR"]))
    if name == "JC69":
        m = {"name": name}
    elif name == "HKY":
        m = {"name": name, "kappa": draw(logu(0.2, 10)), "freqs": draw(simplex(4, spread=draw(fl(0, 2.0))))}
    else:
        m = {"name": name, "rates": [draw(logu(0.2, 5)) for _ in range(6)], "freqs": draw(simplex(4, spread=draw(fl(0, 2.0))))}
    site = draw(st.sampled_from([{"kind": "constant"}, {"kind": "weibull", "K": 4, "shape": 0.5}, {"kind": "weibull", "K": 4, "shape": 2.0}]))
    return {
        "shape": draw(st.sampled_from(["caterpillar", "balanced", "random"])),
        "tseed": draw(st.integers(0, 10**6)), "dseed": draw(st.integers(0, 10**6)), "lseed": draw(st.integers(0, 10**6)),
        "model": m, "site": site, "nsites": draw(st.integers(1, 4)), "pdiff": draw(st.one_of(st.sampled_from([0.0, 0.3, 0.75, 0.75]), st.lists(st.sampled_from([0.0, 0.0, 0.3, 0.75]), min_size=4, max_size=4))),
        "palette": [draw(logu(0.05, 3.0)) for _ in range(draw(st.integers(1, 4)))],
        "gaps": draw(st.sampled_from([0.0, 0.0, 0.01, 0.05])),
        "band": draw(st.sampled_from(bands or ["comfortable", "above_normal", "subnormal", "subnormal", "beyond", "beyond", "far"])),
        "tip": draw(st.sampled_from(["noamb", "states"])),
    }


OPS = ["eval", "scale", "kappa", "batched", "fresh_rescaled"]


@st.composite
def history_case(draw):
    c = draw(base_case(bands=["above_normal", "subnormal", "beyond"]))
    c["model"] = {"name": "HKY", "kappa": draw(logu(0.5, 5)), "freqs": draw(simplex(4, spread=1.0))}
    ops = []
    for _ in range(draw(st.integers(2, 6))):
        k = draw(st.sampled_from(OPS))
        if k == "scale":
            ops.append({"op": k, "c": draw(st.sampled_from([0.02, 0.1, 0.5, 0.9, 1.0, 1.1, 2.0]))})
        elif k == "kappa":
            ops.append({"op": k, "v": draw(logu(0.5, 5))})
        elif k == "batched":
            ops.append({"op": k, "scales": [draw(st.sampled_from([0.02, 0.2, 0.8, 1.0, 1.5])) for _ in range(draw(st.integers(2, 3)))]})
        else:
            ops.append({"op": k})
    c["ops"] = ops
    return c


# ------------------------------------------------------------------ bodies
def _cmp(res, v, ref, what, **extra):
    v = arr(v).reshape(-1)
    refa = np.atleast_1d(np.asarray(ref, dtype=float))
    if v.shape != refa.shape or not np.isfinite(v).all():
        res.fail("nonfinite", dict(what=what, value=v.tolist(), reference=refa.tolist(), **extra))
        return False
    rel = np.max(np.abs(v - refa) / np.maximum(1.0, np.abs(refa)))
    if rel > 1e-8:
        res.fail("mismatch", dict(what=what, value=v.tolist(), reference=refa.tolist(), rel=float(rel), **extra))
        return False
    return True


def size_band(minsite):
    for name, (lo, hi) in BANDS.items():
        if lo <= minsite <= hi:
            return name
    return "between"


def body(c):
    n = c.get("n") or aim_n(c)
    ref = Ref(c, n)
    lengths = lengths_for(n, c["palette"], 1.0, c["lseed"])
    total, sites = ref.loglik(lengths)
    minsite = float(min(sites))
    band = size_band(minsite)
    res = Res(nontrivial=minsite <= -700.0, key=(c["shape"], c["model"]["name"], c["site"], n, band, [round(x, 6) for x in c["palette"]], c["tip"], c["nsites"], c["dseed"] % 1000, str(c["pdiff"])),
              labels=(band, c["shape"], c["model"]["name"], c["site"]["kind"], c["tip"], "n<%d" % (256 * (n // 256 + 1))),
              tags={"model": c["model"]["name"], "band": band, "shape": c["shape"], "tip": c["tip"]})
    dic = build(c, n, ref, lengths, c["tip"])
    v = dic["like"]()
    _cmp(res, v, total, "single", n=n, min_site_loglik=minsite, rescale_flag=bool(dic["like"].rescale))
    return res


def pretags(c):
    return {"model": c["model"]["name"], "shape": c["shape"], "tip": c["tip"], "band": c["band"]}


def history_body(c):
    n = c.get("n") or aim_n(c)
    ref = Ref(c, n)
    base = lengths_for(n, c["palette"], 1.0, c["lseed"])
    dic = build(c, n, ref, base, c["tip"])
    like = dic["like"]
    model = dict(c["model"])
    scale = 1.0
    switched_then_eval = False
    res = Res(tags={"model": "HKY", "band": c["band"], "shape": c["shape"], "tip": c["tip"]})
    seq = []
    for i, op in enumerate([{"op": "eval"}] + c["ops"]):
        k = op["op"]
        seq.append(k)
        was = bool(like.rescale)
        if k == "scale":
            scale = op["c"]
            dic["bl"].tensor = torch.tensor([x * scale for x in base])
        elif k == "kappa":
            model["kappa"] = op["v"]
            dic["kappa"].tensor = torch.tensor([op["v"]])
        if k in ("eval", "scale", "kappa"):
            total, sites = ref.loglik([x * scale for x in base], model)
            v = like()
            if was:
                switched_then_eval = True
            if not _cmp(res, v, total, "step %d %s" % (i, k), n=n, min_site_loglik=float(min(sites)), rescale_before=was, rescale_after=bool(like.rescale)):
                break
        elif k == "batched":
            rows = [[x * s for x in base] for s in op["scales"]]
            dic["bl"].tensor = torch.tensor(rows)
            refs = [ref.loglik(r, model)[0] for r in rows]
            v = like()
            if was:
                switched_then_eval = True
            ok = _cmp(res, v, refs, "step %d batched" % i, n=n, rescale_before=was, rescale_after=bool(like.rescale))
            dic["bl"].tensor = torch.tensor([x * scale for x in base])
            if not ok:
                break
        elif k == "fresh_rescaled":
            # rescaled and unrescaled evaluation agree (both compared with the reference)
            cc = dict(c, model=model)
            d2 = build(cc, n, ref, [x * scale for x in base], c["tip"])
            d2["like"].rescale = True
            total, sites = ref.loglik([x * scale for x in base], model)
            if not _cmp(res, d2["like"](), total, "step %d fresh copy with rescaling forced" % i, n=n):
                break
    res.nontrivial = switched_then_eval
    res.key = (c["shape"], n, seq, [o.get("c") or o.get("scales") for o in c["ops"]], c["dseed"] % 1000)
    res.labels = tuple(sorted(set(seq))) + (("eval_after_switch",) if switched_then_eval else ())
    return res


@st.composite
def batched_first_case(draw):
    c = draw(base_case(bands=["subnormal"]))
    # saturated columns sit at n log(1/4) whatever the branch lengths, so no row of the same data can lie far above
    # another one: (mostly) conserved columns are drawn, whose likelihood falls from about 1/4 to 4^-n as branches grow,
    # and the number of taxa is large enough for the saturated end to lie beyond underflow
    c["pdiff"] = draw(st.sampled_from([0.0, 0.0, 0.02, [0.0, 0.0, 0.05, 0.0], [0.02, 0.0, 0.0, 0.0]]))
    c["palette"] = [draw(logu(0.1, 1.0)) for _ in range(draw(st.integers(1, 3)))]
    c["n"] = draw(st.integers(570, 900))
    c["target"] = draw(fl(-743.5, -728.0))
    c["target_above"] = draw(st.one_of(fl(-640.0, -10.0), fl(-120.0, -10.0)))
    c["order"] = draw(st.permutations([0, 1, 2]))
    c["with_beyond"] = draw(st.booleans())
    # rows of one batch more than 1e308 apart: a scaler shared between them would lose the smaller one
    c["target_beyond"] = draw(st.sampled_from([-775.0, -900.0, -1200.0]))
    return c


def _multiplier_for(ref, base, target, lo=1e-3, hi=2000.0):
    """branch-length multiplier whose smallest site log-likelihood is closest to target (geometric scan, then bisection
    inside the bracketing pair); -> (multiplier, total, min site)"""
    f = lambda m: ref.loglik([x * m for x in base])
    grid = [lo * (hi / lo) ** (k / 39.0) for k in range(40)]
    vals = [f(m) for m in grid]
    best = min(range(40), key=lambda k: abs(min(vals[k][1]) - target))
    out = (grid[best], vals[best][0], float(min(vals[best][1])))
    for k in range(39):
        a, b = min(vals[k][1]), min(vals[k + 1][1])
        if (a - target) * (b - target) <= 0 and a != b:
            x0, x1 = grid[k], grid[k + 1]
            up = a < b
            for _ in range(14):
                xm = math.sqrt(x0 * x1)
                tm = f(xm)
                mm = float(min(tm[1]))
                if abs(mm - target) < abs(out[2] - target):
                    out = (xm, tm[0], mm)
                if (mm < target) == up:
                    x0 = xm
                else:
                    x1 = xm
            break
    return out


def batched_first_body(c):
    """the very first evaluation is batched: one row whose smallest site likelihood is deep in the subnormal range
    (a few significant bits left), one row comfortably above it, possibly one row beyond underflow"""
    n = c["n"]
    ref = Ref(c, n)
    base = lengths_for(n, c["palette"], 1.0, c["lseed"])
    sub = _multiplier_for(ref, base, c["target"])
    above = _multiplier_for(ref, base, c["target_above"])
    beyond = _multiplier_for(ref, base, c.get("target_beyond", -775.0))
    res = Res(nontrivial=False, tags={"model": c["model"]["name"], "band": "subnormal", "shape": c["shape"], "tip": c["tip"]})
    if not (-744.0 <= sub[2] <= -725.0) or not (-660.0 <= above[2] <= -5.0):
        res.labels = ("no_deep_row" if not (-744.0 <= sub[2] <= -725.0) else "no_partner_above",)
        res.key = ("skip", c["shape"], n, c["dseed"] % 1000)
        return res
    rows = [sub, above]
    if c["with_beyond"] and beyond[2] < -750.0:
        rows.append(beyond)
    rows = [rows[i] for i in c["order"] if i < len(rows)]
    dic = build(c, n, ref, base, c["tip"])
    like = dic["like"]
    dic["bl"].tensor = torch.tensor([[x * m for x in base] for m, _, _ in rows])
    refs = [t[1] for t in rows]
    v = like()
    ok = _cmp(res, v, refs, "first evaluation batched", n=n, min_site_loglik=[t[2] for t in rows], rescale_after=bool(like.rescale))
    if ok:
        # and again after the same values are assigned once more (the rescaling decision is kept)
        dic["bl"].tensor = dic["bl"].tensor.clone()
        _cmp(res, like(), refs, "second evaluation batched", n=n, min_site_loglik=[t[2] for t in rows], rescale_after=bool(like.rescale))
    res.nontrivial = True
    res.key = ("batched_first", c["shape"], c["model"]["name"], n, [round(t[0], 9) for t in rows], c["dseed"] % 1000, c["tip"])
    res.labels = ("rows=%d" % len(rows), "deep<%d" % (5 * int(sub[2] // 5) + 5), c["shape"], "first_row_" + ("deep" if rows[0] is sub else "other"))
    return res


@st.composite
def invariant_tail_case(draw):
    c = draw(base_case(bands=["far"]))
    c["site"] = draw(st.sampled_from([{"kind": "invariant", "pinv": 0.2}, {"kind": "invariant", "pinv": draw(fl(0.01, 0.9))},
                                      {"kind": "weibull", "K": 4, "shape": draw(st.sampled_from([0.5, 2.0])), "pinv": draw(fl(0.05, 0.6))}]))
    c["pdiff"] = {"tail": draw(st.integers(1, 3))}
    c["palette"] = [draw(logu(0.3, 1.5)) for _ in range(draw(st.integers(1, 2)))]
    c["n"] = draw(st.integers(600, 1600))
    c["shape"] = draw(st.sampled_from(["caterpillar", "caterpillar", "balanced", "random"]))
    c["force_rescale"] = draw(st.booleans())
    return c


def invariant_tail_body(c):
    """a zero-rate class next to ordinary ones on a tree whose large conserved part makes the ordinary classes underflow:
    the value, and its re-evaluation with rescaling on, equal the reference"""
    n = c["n"]
    ref = Ref(c, n)
    lengths = lengths_for(n, c["palette"], 1.0, c["lseed"])
    total, sites = ref.loglik(lengths)
    res = Res(nontrivial=float(min(sites)) <= -700.0, key=("invariant_tail", c["shape"], c["model"]["name"], str(c["site"]), n, c["pdiff"]["tail"], c["dseed"] % 1000, c["tip"], c["force_rescale"]),
              labels=(c["shape"], c["site"]["kind"], c["tip"], "forced" if c["force_rescale"] else "auto"),
              tags={"model": c["model"]["name"], "band": "far", "shape": c["shape"], "tip": c["tip"], "site": c["site"]["kind"], "zero_rate_class": True})
    if not np.isfinite(total):
        raise AssertionError("harness: reference not finite")
    dic = build(c, n, ref, lengths, c["tip"])
    like = dic["like"]
    if c["force_rescale"]:
        like.rescale = True
    if _cmp(res, like(), total, "first evaluation", n=n, min_site_loglik=float(min(sites)), rescale_after=bool(like.rescale)):
        dic["bl"].tensor = dic["bl"].tensor.clone()
        _cmp(res, like(), total, "second evaluation", n=n, min_site_loglik=float(min(sites)), rescale_after=bool(like.rescale))
    return res


def audit_body(c):
    """numpy log-scaler pruning vs 40-digit mpmath pruning (harness self-audit)"""
    n = c.get("n") or aim_n(c)
    ref = Ref(c, n)
    lengths = lengths_for(n, c["palette"], 1.0, c["lseed"])
    total, sites = ref.loglik(lengths)
    Q, pi = model_q(c["model"])
    bl = {i: lengths[i] for i in range(2 * n - 3)}
    bl[2 * n - 3] = 0.0
    import mpmath as mp

    mp.mp.dps = 40
    cache = {}
    pm = []
    Qm = mp.matrix(Q.tolist())
    for rate in ref.rates:
        d = {}
        for v, t in bl.items():
            key = t * rate
            if key not in cache:
                cache[key] = mp.expm(Qm * mp.mpf(key), method="taylor")
            d[v] = cache[key]
        pm.append(d)
    tot2, _ = OL.prune_loglik_mp(ref.topo.post, ref.topo.root, bl, ref.tv, Q, pi, ref.rates, ref.probs, pmats=pm)
    if abs(total - tot2) > 1e-11 * max(1.0, abs(tot2)):
        raise AssertionError("oracle audit failed: numpy %r vs mpmath %r (n=%d)" % (total, tot2, n))
    return Res(nontrivial=min(sites) <= -700, key=(c["shape"], n, c["model"]["name"], c["dseed"]), labels=("audit",), tags={"model": "oracle"})


def float32_cases(tier):
    """single precision: the same mechanism at much smaller sizes (underflow near 1e-38, detection margin, threshold 1e-20)"""
    out = []
    models = [{"name": "JC69"}, {"name": "HKY", "kappa": 3.0, "freqs": [0.1, 0.2, 0.3, 0.4]}]
    step = 1 if tier == "thorough" else 3
    for shape in ("caterpillar", "balanced", "random"):
        for mi, m in enumerate(models):
            for n in range(8, 90, step):
                out.append({"shape": shape, "tseed": 5, "dseed": 13 + n, "lseed": 2, "model": m, "site": {"kind": "constant"} if (n + mi) % 3 else {"kind": "weibull", "K": 4, "shape": 0.7},
                            "nsites": 2, "pdiff": 0.75 if n % 2 else [0.75, 0.3], "palette": [1.0] if n % 4 else [0.4, 1.3], "band": "float32",
                            "tip": "noamb" if n % 5 else "states", "n": n})
    return out


def float32_body(c):
    n = c["n"]
    ref = Ref(c, n)
    lengths = lengths_for(n, c["palette"], 1.0, c["lseed"])
    total, sites = ref.loglik(lengths)
    minsite = float(min(sites))
    res = Res(nontrivial=minsite <= -40.0, key=("float32", c["shape"], c["model"]["name"], c["site"]["kind"], n, c["tip"]),
              labels=("float32", c["shape"], c["site"]["kind"], c["tip"], "minsite<%d" % (10 * int(minsite // 10) + 10)),
              tags={"model": c["model"]["name"], "band": "float32", "shape": c["shape"], "tip": c["tip"]})
    with tt.default_dtype(torch.float32):
        dic = build(c, n, ref, lengths, c["tip"])
        like = dic["like"]
        vals = [arr(like())]
        dic["bl"].tensor = dic["bl"].tensor.clone()
        vals.append(arr(like()))
    for what, v in zip(("first evaluation", "second evaluation"), vals):
        v = np.asarray(v, dtype=float).reshape(-1)
        if v.shape != (1,) or not np.isfinite(v).all():
            res.fail("nonfinite", dict(what=what, value=v.tolist(), reference=total, n=n, min_site_loglik=minsite))
            break
        if abs(v[0] - total) > 2e-5 * max(1.0, abs(total)):
            res.fail("mismatch", dict(what=what, value=v.tolist(), reference=total, n=n, min_site_loglik=minsite, rel=abs(v[0] - total) / max(1.0, abs(total))))
            break
    return res


def sweep_cases(tier):
    out = []
    models = [{"name": "JC69"}, {"name": "HKY", "kappa": 3.0, "freqs": [0.1, 0.2, 0.3, 0.4]}, {"name": "GTR", "rates": [1.0, 2.0, 0.5, 1.5, 3.0, 1.0], "freqs": [0.3, 0.2, 0.1, 0.4]}]
    for shape in ("caterpillar", "balanced", "random"):
        for m in models:
            step = 1 if tier == "thorough" else 6
            for n in range(500, 552, step):
                out.append({"shape": shape, "tseed": 7, "dseed": 11, "lseed": 3, "model": m, "site": {"kind": "constant"}, "nsites": 3,
                            "pdiff": 0.75 if n % 2 else [0.75, 0.0, 0.75], "palette": [1.0], "band": "subnormal", "tip": "noamb" if n % 4 < 2 else "states", "n": n})
    return out


def subchecks(tier):
    return [
        Sub("single", body, strategy=base_case, quick=48, thorough=1500, pretags=pretags),
        Sub("history", history_body, strategy=history_case, quick=16, thorough=400, pretags=pretags),
        Sub("batched_first", batched_first_body, strategy=batched_first_case, quick=24, thorough=600, pretags=pretags),
        Sub("invariant_tail", invariant_tail_body, strategy=invariant_tail_case, quick=16, thorough=400, pretags=lambda c: dict(pretags(c), zero_rate_class=True)),
        Sub("float32_sweep", float32_body, enumerate=float32_cases, exhaustive=(tier == "thorough"), pretags=pretags),
        Sub("band_sweep", body, enumerate=sweep_cases, exhaustive=(tier == "thorough"), pretags=pretags),
        Sub("audit_oracle", audit_body, strategy=lambda: base_case(bands=["above_normal", "subnormal"]), quick=4, thorough=48),
    ]
