"""Grammar-based generator of specifications (the id language) for C13, used by vt/props/c13.py.

A program is a top-level list; every object slot of the zoo is typed (kind, domain, length) and
is filled either by a new inline definition or by the id of an object completed earlier such
that the lowest common ancestor of definition and reference is a *list* (top-level list, a
top-level sub-list, `distributions`, `parameters`, `taxa`, `x`): list order is the only order the
language defines (the order in which a from_json reads the keys of one object is not).
"""
import copy
import math

from hypothesis import strategies as st

from vt.gen.basic import fl, logu, simplex
from vt.oracle.idlang import MODULES
from vt.oracle.idlang import is_plate as idlang_is_plate

REAL, POS, UNIT, SIMPLEX = "real", "pos", "unit", "simplex"
RANK = {SIMPLEX: 0, UNIT: 1, POS: 2, REAL: 3}
DOMS = [REAL, POS, UNIT, SIMPLEX]

# ordinary names, names that collide with attributes of the holder classes (the containers store
# children under their id), names with dots / blanks / non-ASCII; never '{' (range-reference
# syntax), never a trailing '*' or '$' (plate syntax)
ID_POOL = [
    "a", "b", "c", "d", "e", "f", "g", "h", "k", "m", "p", "q", "r", "s", "u", "v", "w", "y", "z",
    "x", "id", "tensor", "lp", "listeners", "parameters", "_parameters", "_models", "tag", "sample_shape",
    "models", "to", "loc", "scale", "rate", "type", "ignore", "_c", "tree.ratios", "a.b", "sm.shape", "B_7", "0",
    "a b", "é", "kappa", "mu", "__class__", "None", "true",
]
SAFE_POOL = ["A", "B", "C", "D", "E", "t1", "t2", "t3", "s_1", "s_2", "Hu", "Ch", "Go", "Or", "x1", "y2"]


def fits(dom, slot):
    return RANK[dom] <= RANK[slot]


def demote(dom):
    return UNIT if dom == SIMPLEX else dom


class N:  # a completed, referable object
    def __init__(self, id_, kind, path, **kw):
        self.id, self.kind, self.path = id_, kind, path
        self.__dict__.update(kw)


def jget(spec, path):
    for p in path:
        spec = spec[p]
    return spec


def jset(spec, path, val):
    jget(spec, path[:-1])[path[-1]] = val


class Gen:
    def __init__(self, draw, max_top=6, loggers=False):
        self.loggers = loggers
        self.nlog = 0
        self.draw = draw
        self.nodes = []
        self.used = set()
        self.defs = []  # {"path", "id"}: inline definitions outside plates
        self.refs = []  # {"path", "id", "strict"}: string references
        self.max_top = max_top
        self.features = set()

    # ---- small helpers
    def d(self, s):
        return self.draw(s)

    def chance(self, p):
        return self.d(st.integers(0, 99)) < int(p * 100)

    def fresh(self, safe=False):
        pool = SAFE_POOL if safe else ID_POOL
        name = self.d(st.sampled_from(pool))
        base, k = name, 1
        while name in self.used or any(u.startswith(name + ".") for u in self.used):
            k += 1
            name = "%s%d" % (base, k)
        self.used.add(name)
        return name

    def typename(self, cls):
        r = self.d(st.integers(0, 9))
        if r == 0:
            return MODULES[cls] + "." + cls
        if r == 1 and cls in ("Parameter", "ViewParameter", "CatParameter", "TransformedParameter"):
            return "torchtree." + cls
        return cls

    def can_ref(self, node, path):
        n = 0
        while n < len(node.path) and n < len(path) and node.path[n] == path[n]:
            n += 1
        return n < len(node.path) and isinstance(node.path[n], int) and n < len(path) and isinstance(path[n], int)

    def cands(self, path, pred):
        return [x for x in self.nodes if pred(x) and self.can_ref(x, path)]

    def ref_or(self, path, pred, p_ref, make, strict=True):
        c = self.cands(path, pred)
        if c and self.chance(p_ref):
            x = self.d(st.sampled_from(c))
            self.refs.append({"path": list(path), "id": x.id, "strict": strict})
            return x.id
        return make()

    def done(self, obj, kind, path, **kw):
        self.nodes.append(N(obj["id"], kind, list(path), cls=obj["type"].split(".")[-1], **kw))
        self.defs.append({"path": list(path), "id": obj["id"], "cls": obj["type"].split(".")[-1]})
        return obj

    def values(self, dom, n):
        if dom == SIMPLEX:
            return self.d(simplex(n))
        s = {REAL: fl(-3.0, 3.0), POS: logu(0.05, 20.0), UNIT: fl(0.02, 0.9)}[dom]
        return [self.d(s) for _ in range(n)]

    # ---- vectors
    MAG = {REAL: 3.0, POS: 20.0, UNIT: 1.0, SIMPLEX: 1.0}
    EXP_MAX = 25.0  # nothing larger is ever exponentiated (exp(exp(20)) overflows)

    def node_of(self, v):
        id_ = v if isinstance(v, str) else v["id"]
        for x in self.nodes:
            if x.id == id_:
                return x
        return None

    def mag_of(self, v):
        vs = v if isinstance(v, list) else [v]
        out = 1.0
        for e in vs:
            if idlang_is_plate(e):
                out = max(out, 20.0)
            else:
                out = max(out, getattr(self.node_of(e), "mag", 20.0))
        return out

    def vec(self, dom, n, path, depth=0, p_ref=0.7, strict=True, small=False):
        """small: the value will be exponentiated, so it must be bounded by EXP_MAX"""
        return self.ref_or(
            path,
            lambda x: x.kind == "vec" and x.n == n and fits(x.dom, dom) and not (small and x.mag > self.EXP_MAX),
            p_ref,
            lambda: self.new_vec(dom, n, path, depth, small),
            strict,
        )

    def new_vec(self, dom, n, path, depth, small=False):
        opts = ["leaf"] * 5
        if depth < 2:
            if dom != SIMPLEX:
                opts += ["view", "cat", "like"]
            if dom in (POS, REAL) and not small:
                opts += ["exp"]
            if dom in (UNIT, POS, REAL):
                opts += ["sigmoid"]
        k = self.d(st.sampled_from(opts))
        id_ = self.fresh()
        if k == "leaf":
            sub = [x for x in DOMS if fits(x, dom) and (x != SIMPLEX or n >= 2)]
            nd = self.d(st.sampled_from(sub))
            o = {"id": id_, "type": self.typename("Parameter"), "tensor": self.values(nd, n)}
            if self.chance(0.1):
                o["dtype"] = "torch.float64"
            return self.done(o, "vec", path, dom=nd, n=n, updatable=True, mag=self.MAG[nd])
        if k == "like":
            form = self.d(st.sampled_from({REAL: ["ones_like", "zeros_like", "full_like"], POS: ["ones_like", "full_like"], UNIT: ["full_like"]}[dom]))
            o = {"id": id_, "type": self.typename("Parameter")}
            o[form] = self.vec(REAL, n, path + [form], depth + 1)
            nd = REAL
            if form == "full_like":
                nd = dom if dom != REAL else self.d(st.sampled_from([REAL, POS, UNIT]))
                o["tensor"] = self.values(nd, 1)[0]
            elif form == "ones_like":
                nd = POS
            self.features.add("like")
            return self.done(o, "vec", path, dom=nd, n=n, updatable=False, mag=self.MAG[nd])
        if k == "view":
            pdoms = [x for x in DOMS if fits(demote(x), dom)]
            pd = self.d(st.sampled_from(pdoms))
            m = n + self.d(st.integers(0, 2))
            if pd == SIMPLEX:
                m = max(m, 2)
            a = self.d(st.integers(0, m - n))
            forms = ["%d:%d" % (a, a + n)]
            if a + n == m:
                forms.append("%d:" % a)
            if a == 0:
                forms.append(":%d" % n)
            if m >= 2 * n - 1 and n >= 2:
                forms.append("0:%d:2" % (2 * n - 1))
            if n == m:
                forms += ["::-1", ":"]
            o = {"id": id_, "type": self.typename("ViewParameter")}
            if self.chance(0.5):
                o["indices"] = self.d(st.sampled_from(forms))
                o["parameter"] = self.vec(pd, m, path + ["parameter"], depth + 1, small=small)
            else:
                o["parameter"] = self.vec(pd, m, path + ["parameter"], depth + 1, small=small)
                o["indices"] = self.d(st.sampled_from(forms))
            self.features.add("view")
            return self.done(o, "vec", path, dom=demote(pd), n=n, updatable=False, mag=self.mag_of(o["parameter"]))
        if k == "cat":
            pdoms = [x for x in DOMS if fits(demote(x), dom)]
            parts, total = self.parts(n, path + ["parameters"], lambda m, p: self.vec(self.pick_dom(pdoms, m), m, p, depth + 1, small=small), allow_plate=True, pdoms=pdoms)
            o = {"id": id_, "type": self.typename("CatParameter"), "parameters": parts}
            if self.chance(0.3):
                o["dim"] = self.d(st.sampled_from([0, -1]))
            self.features.add("cat")
            return self.done(o, "vec", path, dom=dom, n=n, updatable=False, mag=self.mag_of(parts))
        # transformed
        tr = "torch.distributions.ExpTransform" if k == "exp" else "torch.distributions.SigmoidTransform"
        o = {"id": id_, "type": self.typename("TransformedParameter"), "transform": tr}
        if n >= 2 and self.chance(0.3):
            o["x"], _ = self.parts(n, path + ["x"], lambda m, p: self.vec(REAL, m, p, depth + 1, small=k == "exp"))
        else:
            o["x"] = self.vec(REAL, n, path + ["x"], depth + 1, small=k == "exp")
        self.features.add("transformed")
        mag = math.exp(min(self.mag_of(o["x"]), self.EXP_MAX)) if k == "exp" else 1.0
        return self.done(o, "vec", path, dom=POS if k == "exp" else UNIT, n=n, updatable=False, jac=True, mag=mag)

    def pick_dom(self, doms, m):
        doms = [x for x in doms if x != SIMPLEX or m >= 2]
        return self.d(st.sampled_from(doms))

    def parts(self, n, path, make, allow_plate=False, pdoms=None):
        """a list of objects whose lengths add up to n; optionally one run realised as a plate"""
        out = []
        left = n
        while left > 0:
            m = self.d(st.integers(1, left)) if len(out) < 2 else left
            if allow_plate and left >= 2 and self.chance(0.15):
                k = self.d(st.integers(2, min(3, left)))
                out.append(self.plate_params(path + [len(out)], k, 1, self.pick_dom(pdoms, 1)))
                left -= k
                continue
            out.append(make(m, path + [len(out)]))
            left -= m
        return out, n

    # ---- plates
    def plate_range(self, k):
        a = self.d(st.integers(0, 3))
        if self.chance(0.25):
            idx = list(range(a, a + 2 * k, 2))
            return "%d:%d:2" % (a, a + 2 * k - self.d(st.integers(0, 1))), idx
        return "%d:%d" % (a, a + k), list(range(a, a + k))

    def plate_wrap(self, obj, rng, var):
        p = {"type": self.d(st.sampled_from(["torchtree.Plate", "Plate"])), "range": rng, "object": obj}
        if var is not None:
            p["var"] = var
        items = list(p.items())
        if self.chance(0.3):
            items.reverse()
        self.features.add("plate")
        return dict(items)

    def plate_ids(self, stem, idx, var, sep="."):
        if var is None:
            return stem + sep + "*", [stem + sep + str(i) for i in idx]
        return stem + sep + "${%s}" % var, [stem + sep + str(i) for i in idx]

    def plate_params(self, path, k, n, dom, safe=False):
        rng, idx = self.plate_range(k)
        var = self.d(st.sampled_from(["i", "j", "idx", None]))
        stem = self.fresh(safe)
        tid, ids = self.plate_ids(stem, idx, var)
        obj = {"id": tid, "type": self.typename("Parameter"), "tensor": self.values(dom, n)}
        for j, i in enumerate(ids):
            self.used.add(i)
            self.nodes.append(N(i, "vec", list(path) + ["#%d" % j], cls="Parameter", dom=dom, n=n, updatable=True, mag=self.MAG[dom]))
        return self.plate_wrap(obj, rng, var)

    def plate_dists(self, path, k):
        rng, idx = self.plate_range(k)
        var = self.d(st.sampled_from(["i", "k", None]))
        tid, ids = self.plate_ids(self.fresh(), idx, var)
        xid, xids = self.plate_ids(self.fresh(), idx, var)
        n = self.d(st.integers(1, 3))
        obj = {
            "id": tid,
            "type": "Distribution",
            "distribution": "torch.distributions.Normal",
            "x": {"id": xid, "type": "Parameter", "tensor": self.values(REAL, n)},
            "parameters": {
                "loc": self.ref_or_literal(REAL, n, path + ["object", "parameters", "loc"]),
                "scale": self.ref_or_literal(POS, n, path + ["object", "parameters", "scale"]),
            },
        }
        for j in range(len(ids)):
            self.used.update([ids[j], xids[j]])
            self.nodes.append(N(xids[j], "vec", list(path) + ["#%d" % j, "x"], cls="Parameter", dom=REAL, n=n, updatable=True, mag=3.0))
            self.nodes.append(N(ids[j], "dist", list(path) + ["#%d" % j], cls="Distribution"))
        return self.plate_wrap(obj, rng, var)

    def ref_or_literal(self, dom, n, path):
        c = self.cands(path, lambda x: x.kind == "vec" and x.n in (1, n) and fits(x.dom, dom))
        if c and self.chance(0.5):
            x = self.d(st.sampled_from(c))
            self.refs.append({"path": list(path), "id": x.id, "strict": False})
            return x.id
        return self.values(dom, 1)[0]

    # ---- distributions
    def dist(self, path, depth=0, p_ref=0.4):
        return self.ref_or(path, lambda x: x.kind == "dist", p_ref, lambda: self.new_dist(path, depth))

    def new_dist(self, path, depth):
        kinds = ["Normal", "Normal", "Gamma", "LogNormal", "Exponential", "Dirichlet"]
        if depth < 2:
            kinds += ["joint"]
        k = self.d(st.sampled_from(kinds))
        if k == "joint":
            return self.joint(path, depth + 1)
        id_ = self.fresh()
        n = self.d(st.integers(2, 4)) if k == "Dirichlet" else self.d(st.integers(1, 4))
        xdom = {"Normal": REAL, "Gamma": POS, "LogNormal": POS, "Exponential": POS, "Dirichlet": SIMPLEX}[k]
        args = {
            "Normal": [("loc", REAL), ("scale", POS)],
            "LogNormal": [("loc", REAL), ("scale", POS)],
            "Gamma": [("concentration", POS), ("rate", POS)],
            "Exponential": [("rate", POS)],
            "Dirichlet": [("concentration", POS)],
        }[k]
        o = {"id": id_, "type": self.typename("Distribution"), "distribution": "torch.distributions." + k}
        xlist = k != "Dirichlet" and n >= 2 and self.chance(0.25)

        def mk_x():
            if xlist:
                o["x"], _ = self.parts(n, path + ["x"], lambda m, p: self.vec(xdom, m, p, 1))
            else:
                o["x"] = self.vec(xdom, n, path + ["x"], 1)

        def mk_p():
            pd = {}
            order = list(args)
            if self.chance(0.3):
                order.reverse()
            for name, dom in order:
                m = n if (k == "Dirichlet" or self.chance(0.4)) else 1
                r = self.d(st.integers(0, 9))
                if r < 2 and not xlist:
                    pd[name] = self.values(dom, 1)[0] if m == 1 else self.values(dom, m)  # literal
                else:
                    pd[name] = self.vec(dom, m, path + ["parameters", name], 1, strict=False)
            o["parameters"] = pd

        if self.chance(0.5):
            mk_x()
            mk_p()
        else:
            mk_p()
            mk_x()
        return self.done(o, "dist", path)

    def joint(self, path, depth=0):
        id_ = self.fresh()
        k = self.d(st.integers(1, 4))
        ds = []
        for _ in range(k):
            p = path + ["distributions", len(ds)]
            r = self.d(st.integers(0, 9))
            if r == 0:
                ds.append(self.plate_dists(p, self.d(st.integers(1, 3))))
            elif r == 1:
                # a transformed parameter contributes its log-Jacobian
                ds.append(self.ref_or(p, lambda x: getattr(x, "jac", False), 0.7, lambda: self.new_jac(p)))
            else:
                ds.append(self.dist(p, depth))
        o = {"id": id_, "type": self.typename("JointDistributionModel"), "distributions": ds}
        return self.done(o, "dist", path)

    def new_jac(self, path):
        n = self.d(st.integers(1, 3))
        tr = self.d(st.sampled_from(["torch.distributions.ExpTransform", "torch.distributions.SigmoidTransform"]))
        ex = tr.endswith("ExpTransform")
        o = {"id": self.fresh(), "type": "TransformedParameter", "transform": tr, "x": self.vec(REAL, n, path + ["x"], 1, small=ex)}
        mag = math.exp(min(self.mag_of(o["x"]), self.EXP_MAX)) if ex else 1.0
        return self.done(o, "vec", path, dom=POS if ex else UNIT, n=n, updatable=False, jac=True, mag=mag)

    # ---- phylogenetic part of the zoo
    def site(self, path):
        def make():
            k = self.d(st.sampled_from(["ConstantSiteModel", "InvariantSiteModel", "WeibullSiteModel", "WeibullSiteModel"]))
            o = {"id": self.fresh(), "type": self.typename(k)}
            slots = []
            if k == "InvariantSiteModel":
                slots.append(("invariant", UNIT))
            if k == "WeibullSiteModel":
                o["categories"] = self.d(st.integers(1, 5))
                slots.append(("shape", POS))
                if self.chance(0.4):
                    slots.append(("invariant", UNIT))
            if self.chance(0.4):
                slots.append(("mu", POS))
            if self.chance(0.3):
                slots.reverse()
            for name, dom in slots:
                o[name] = self.vec(dom, 1, path + [name], 1)
            return self.done(o, "site", path)

        return self.ref_or(path, lambda x: x.kind == "site", 0.3, make)

    def subst(self, path):
        def make():
            k = self.d(st.sampled_from(["JC69", "HKY", "GTR", "HKY", "GTR"]))
            o = {"id": self.fresh(), "type": self.typename(k)}
            slots = {"JC69": [], "HKY": [("kappa", POS, 1), ("frequencies", SIMPLEX, 4)], "GTR": [("rates", POS, 6), ("frequencies", SIMPLEX, 4)]}[k]
            if self.chance(0.3):
                slots.reverse()
            for name, dom, n in slots:
                o[name] = self.vec(dom, n, path + [name], 1)
            return self.done(o, "subst", path)

        return self.ref_or(path, lambda x: x.kind == "subst", 0.3, make)

    def taxa(self, path, n, dated):
        """dated: the holder needs sampling dates (time trees); otherwise half of the lists hold taxa
        without attributes (what UnRootedTreeModel.json_factory emits): such objects are empty
        containers, like a Taxa with no taxon, and must be ordinary citizens of the id language"""

        def make():
            dd = dated or self.chance(0.5)
            id_ = self.fresh()
            lst = []
            names = []
            dates = [0.0] + [self.d(st.sampled_from([0.0, 0.5, 1.0, 2.0])) for _ in range(n - 1)]
            if dd and n == 3 and self.chance(0.2):
                # a plate of taxa t0, t1, t2 (all sampled at time 0)
                rng, idx = "0:3", [0, 1, 2]
                stem = self.fresh(True)
                var = self.d(st.sampled_from(["i", None]))
                tid, ids = self.plate_ids(stem, idx, var, sep="_")
                obj = {"id": tid, "type": "Taxon", "attributes": {"date": 0.0}}
                for j, i in enumerate(ids):
                    self.used.add(i)
                    self.nodes.append(N(i, "taxon", path + ["taxa", 0, "#%d" % j], cls="Taxon"))
                lst.append(self.plate_wrap(obj, rng, var))
                names = ids
            else:
                for j in range(n):
                    p = path + ["taxa", j]

                    def mk(p=p, j=j):
                        return self.new_taxon(p, dates[j] if dd else None)

                    v = self.ref_or(p, lambda x: x.kind == "taxon" and x.id not in names and (hasattr(x, "date") or not dd), 0.2, mk)
                    names.append(v if isinstance(v, str) else v["id"])
                    lst.append(v)
            o = {"id": id_, "type": self.typename("Taxa"), "taxa": lst}
            return self.done(o, "taxa", path, n=n, names=names, dated=dd)

        return self.ref_or(path, lambda x: x.kind == "taxa" and x.n == n and (x.dated or not dated), 0.5, make)

    def new_taxon(self, path, date):
        t = {"id": self.fresh(True), "type": self.typename("Taxon")}
        if date is not None:
            t["attributes"] = {"date": date}
            return self.done(t, "taxon", path, date=date)
        if self.chance(0.3):
            t["attributes"] = {}
        return self.done(t, "taxon", path)

    def empty_taxa(self, path):
        o = {"id": self.fresh(), "type": self.typename("Taxa"), "taxa": []}
        return self.done(o, "taxa", path, n=0, names=[], dated=False)

    def tree(self, path, timed=None):
        def make():
            t = self.chance(0.6) if timed is None else timed
            n = self.d(st.integers(3, 4))
            o = {"id": self.fresh(), "type": self.typename(("FlexibleTimeTreeModel" if self.chance(0.35) else "TimeTreeModel") if t else "UnRootedTreeModel")}
            tx = self.taxa(path + ["taxa"], n, t)
            names = tx["taxa"] if isinstance(tx, dict) else None
            node = [x for x in self.nodes if x.id == (tx if isinstance(tx, str) else tx["id"])][0]
            nm = node.names
            nwk = "(%s,%s)" % (nm[0], nm[1])
            for k in range(2, n):
                nwk = "(%s,%s)" % (nwk, nm[k])
            o["taxa"] = tx
            o["newick"] = nwk + ";"
            if t:
                # heights strictly increasing above the youngest possible tip (dates <= 2)
                o["internal_heights"] = self.heights(path + ["internal_heights"], n - 1)
            elif self.chance(0.4):
                # keep_branch_lengths: the lengths written in the newick string are assigned to the
                # (possibly shared) branch-length parameter while the tree is loaded
                m = 2 * n - 3
                w = [self.d(logu(0.05, 5.0)) for _ in range(2 * n - 2)]
                lab = lambda i: "%s:%r" % (nm[i], w[i])  # noqa
                nwk = "(%s,%s)" % (lab(0), lab(1))
                for k in range(2, n):
                    nwk = "(%s:%r,%s)" % (nwk, w[n + k - 2], lab(k))
                o["newick"] = nwk + ";"
                o["keep_branch_lengths"] = True
                p = path + ["branch_lengths"]
                o["branch_lengths"] = self.ref_or(
                    p, lambda x: x.kind == "vec" and x.cls == "Parameter" and getattr(x, "updatable", False) and x.n == m and x.dom in (POS, REAL),
                    0.5, lambda: self.new_leaf(p, POS, m))
                self.features.add("keep_branch_lengths")
            else:
                o["branch_lengths"] = self.vec(POS, 2 * n - 3, path + ["branch_lengths"], 1)
            return self.done(o, "tree", path, n=n, timed=t)

        return self.ref_or(path, lambda x: x.kind == "tree" and (timed is None or x.timed == timed), 0.5, make)

    def heights(self, path, m):
        def make():
            h, cur = [], 2.0
            for _ in range(m):
                cur += self.d(fl(0.1, 3.0))
                h.append(cur)
            o = {"id": self.fresh(), "type": "Parameter", "tensor": h}
            return self.done(o, "heights", path, n=m, updatable=True, dom="heights")

        return self.ref_or(path, lambda x: x.kind == "heights" and x.n == m, 0.3, make)

    def clock(self, path):
        k = self.d(st.sampled_from(["StrictClockModel", "SimpleClockModel"]))
        o = {"id": self.fresh(), "type": self.typename(k)}
        o["tree_model"] = self.tree(path + ["tree_model"], True)
        tn = [x for x in self.nodes if x.id == (o["tree_model"] if isinstance(o["tree_model"], str) else o["tree_model"]["id"])][0]
        o["rate"] = self.vec(POS, 1 if k == "StrictClockModel" else 2 * tn.n - 2, path + ["rate"], 1)
        return self.done(o, "clock", path)

    def ctmc(self, path):
        o = {"id": self.fresh(), "type": self.typename("CTMCScale")}
        if self.chance(0.5):
            o["x"] = self.vec(POS, 1, path + ["x"], 1)
            o["tree_model"] = self.tree(path + ["tree_model"], True)
        else:
            o["tree_model"] = self.tree(path + ["tree_model"], True)
            o["x"] = self.vec(POS, 1, path + ["x"], 1)
        return self.done(o, "dist", path)

    # ---- program
    def top_object(self, path, kind):
        if kind == "leaf":
            n = self.d(st.integers(1, 4))
            doms = [x for x in DOMS if x != SIMPLEX or n >= 2]
            return self.new_leaf(path, self.d(st.sampled_from(doms)), n)
        if kind == "vec":
            n = self.d(st.integers(1, 4))
            return self.new_vec(self.d(st.sampled_from([REAL, POS, UNIT])), n, path, 0)
        if kind == "dist":
            return self.new_dist(path, 0)
        if kind == "joint":
            return self.joint(path, 0)
        if kind == "site":
            return self.site(path)
        if kind == "subst":
            return self.subst(path)
        if kind == "tree":
            return self.tree(path)
        if kind == "clock":
            return self.clock(path)
        if kind == "ctmc":
            return self.ctmc(path)
        if kind == "taxon":
            return self.new_taxon(path, None if self.chance(0.7) else 0.0)
        if kind == "taxa":
            return self.taxa(path, self.d(st.integers(1, 4)), False)
        if kind == "taxa0":
            return self.empty_taxa(path)
        raise ValueError(kind)

    def new_leaf(self, path, dom, n):
        o = {"id": self.fresh(), "type": self.typename("Parameter"), "tensor": self.values(dom, n)}
        return self.done(o, "vec", path, dom=dom, n=n, updatable=True, mag=self.MAG[dom])

    def logger(self, path):
        """a Runnable: torchtree.main runs it when its top-level element is complete; it writes the
        current values of its (plain) parameters to a file in the working directory"""
        o = {"id": self.fresh(), "type": self.typename("Logger")}
        ps = []
        for j in range(self.d(st.integers(1, 2))):
            p = path + ["parameters", j]
            n = self.d(st.integers(1, 3))
            ps.append(self.ref_or(p, lambda x: x.kind == "vec" and x.cls == "Parameter" and getattr(x, "updatable", False), 0.8,
                                  lambda p=p, n=n: self.new_leaf(p, self.d(st.sampled_from([REAL, POS, UNIT])), n)))
        o["parameters"] = ps
        self.nlog += 1
        o["file_name"] = "log-%d.csv" % self.nlog
        return self.done(o, "logger", path)

    KINDS = ["leaf"] * 4 + ["vec"] * 2 + ["dist"] * 4 + ["joint"] * 3 + ["site", "subst", "tree", "clock", "ctmc"] + ["taxon", "taxa", "taxa0", "tree", "site", "site", "subst"]

    def program(self):
        ntop = self.d(st.integers(2, self.max_top))
        top = []
        for t in range(ntop):
            r = self.d(st.integers(0, 19))
            if r == 0:
                sub = []
                for j in range(self.d(st.integers(1, 3))):
                    sub.append(self.top_object([t, j], self.d(st.sampled_from(self.KINDS[:13]))))
                self.features.add("sublist")
                top.append(sub)
            elif r == 1:
                k = self.d(st.integers(1, 3))
                n = self.d(st.integers(1, 3))
                top.append(self.plate_params([t], k, n, self.d(st.sampled_from([REAL, POS, UNIT]))))
            elif r in (3, 4) and self.loggers and t > 0:
                top.append(self.logger([t]))
            elif r == 2 and self.nodes:
                x = self.d(st.sampled_from(self.cands([t], lambda x: x.kind != "logger") or [None]))
                if x is None:
                    top.append(self.top_object([t], "leaf"))
                else:
                    self.refs.append({"path": [t], "id": x.id, "strict": True})
                    top.append(x.id)
            else:
                kind = self.d(st.sampled_from(self.KINDS if t > 1 else self.KINDS[:6]))
                top.append(self.top_object([t], kind))
        return top


# --------------------------------------------------------------------------- faults
FAULTS = [
    "dup_sibling", "dup_ancestor", "dup_ancestor", "dup_distant", "dup_toplevel", "dangling", "forward", "enclosing",
    "missing_id", "missing_type", "unknown_type", "not_object", "plate_not_in_list", "plate_dup", "dup_empty", "dup_empty", "optional_slot", "optional_slot", "dangling_key", "dangling_key",
]


def _empty_container(o):
    """definitions whose object is an empty container (a taxon without attributes, a Taxa without taxa)"""
    t = str(o.get("type", "")).split(".")[-1]
    return (t == "Taxon" and not o.get("attributes")) or (t == "Taxa" and o.get("taxa") == [])


def _is_prefix(a, b):
    return len(a) < len(b) and b[: len(a)] == a


def inject(g, spec, kind):
    """mutate spec (generated by g) so that it has one fault of the given kind; returns the
    kind actually injected"""
    d = g.d
    defs, refs = g.defs, g.refs
    if not defs:  # a program of plates only: give the fault something to act on
        id_ = g.fresh()
        spec.append({"id": id_, "type": "Parameter", "tensor": [0.5]})
        defs.append({"path": [len(spec) - 1], "id": id_, "cls": "Parameter"})

    def rename(dst, src):
        """give the definition dst the id of src; references to dst follow"""
        old = dst["id"]
        jget(spec, dst["path"])["id"] = src["id"]
        for r in refs:
            if r["id"] == old:
                jset(spec, r["path"], src["id"])

    def unreferenced_first(cands, idx):
        cands = sorted(cands, key=lambda p: sum(r["id"] == p[idx]["id"] for r in refs))
        return cands

    def any_pairs(pred):
        out = []
        for a in defs:
            for b in defs:
                # b is the one that gets renamed; a taxon's name is also written in the newick string
                if a is not b and b["cls"] != "Taxon" and pred(a["path"], b["path"]):
                    out.append((a, b))
        return out

    def extra_param(id_):
        return {"id": id_, "type": "Parameter", "tensor": [0.5]}

    if kind == "dangling_key":
        # a reference to nothing that is spelled like a key of the object that makes it (or like "id",
        # "type", a class name), placed in the parameters of a distribution
        dists = [x for x in defs if x["cls"] == "Distribution" and isinstance(jget(spec, x["path"]).get("parameters"), dict)
                 and jget(spec, x["path"])["parameters"]]
        if dists and d(st.booleans()):
            o = jget(spec, d(st.sampled_from(dists))["path"])
        else:
            o = {"id": g.fresh(), "type": "Distribution", "distribution": "torch.distributions.Normal",
                 "x": {"id": g.fresh(), "type": "Parameter", "tensor": [0.5]}, "parameters": {"loc": 0.0, "scale": 1.0}}
            spec.append(o)
        names = [k for k in list(o) + ["Distribution", "Parameter", "id", "type"] if k not in g.used]
        arg = d(st.sampled_from(sorted(o["parameters"])))
        o["parameters"][arg] = d(st.sampled_from(names or ["nowhere"]))
        return kind
    if kind == "optional_slot":
        # a key that is optional for its holder (mu / invariant of a site model) holds a reference to
        # nothing, to a later definition, to the holder itself, or something that is not an object
        id_ = g.fresh()
        cls = d(st.sampled_from(["ConstantSiteModel", "InvariantSiteModel", "WeibullSiteModel", "torchtree.evolution.site_model.WeibullSiteModel"]))
        o = {"id": id_, "type": cls}
        if cls.endswith("WeibullSiteModel"):
            o["categories"] = d(st.integers(1, 4))
            o["shape"] = {"id": g.fresh(), "type": "Parameter", "tensor": [d(logu(0.1, 10.0))]}
        if cls == "InvariantSiteModel":
            o["invariant"] = {"id": g.fresh(), "type": "Parameter", "tensor": [d(fl(0.05, 0.9))]}
        key = "mu" if cls in ("ConstantSiteModel", "InvariantSiteModel") else d(st.sampled_from(["mu", "invariant"]))
        how = d(st.integers(0, 4))
        later = None
        if how == 0:
            o[key] = d(st.sampled_from(["nowhere", "mu", "invariant", "type", "shape", ""]))
            while o[key] in g.used:
                o[key] += "_"
        elif how == 1:
            o[key] = id_
        elif how == 2:
            later = g.fresh()
            o[key] = later
        else:
            o[key] = d(st.sampled_from([None, 0.5, 2, False, True]))
        spec.append(o)
        if later is not None:
            spec.append(extra_param(later))
        return kind
    if kind == "dup_empty":
        # the id of an (attribute-less taxon / empty Taxa) is defined a second time: at top level, inside
        # another list, inside its own definition, as a sibling; by the same or by another class
        form = d(st.integers(0, 5))
        if form == 3:
            x = g.fresh(True)
            spec.append({"id": x, "type": "Taxa", "taxa": [{"id": x, "type": "Taxon"}, {"id": g.fresh(True), "type": "Taxon"}]})
            return kind
        if form == 4:
            x = g.fresh(True)
            spec.append({"id": g.fresh(), "type": "Taxa", "taxa": [{"id": x, "type": "Taxon"}, {"id": x, "type": d(st.sampled_from(["Taxon", "torchtree.evolution.taxa.Taxon"]))}]})
            return kind
        empties = [x for x in defs if _empty_container(jget(spec, x["path"]))]
        if empties:
            aid = d(st.sampled_from(empties))["id"]
        else:
            aid = g.fresh(True)
            spec.append(d(st.sampled_from([{"id": aid, "type": "Taxon"}, {"id": aid, "type": "Taxa", "taxa": []}, {"id": aid, "type": "Taxon", "attributes": {}}])))
        if form == 0:
            spec.append({"id": aid, "type": "Taxon"})
        elif form == 1:
            spec.append({"id": g.fresh(), "type": "Taxa", "taxa": [{"id": g.fresh(True), "type": "Taxon"}, {"id": aid, "type": "Taxon", "attributes": {}}]})
        elif form == 2:
            spec.append(extra_param(aid))
        else:
            spec.append({"id": g.fresh(), "type": "ViewParameter", "indices": "0:1", "parameter": extra_param(aid)})
        return kind
    if kind == "dup_sibling":
        ps = any_pairs(lambda p, q: p[:-1] == q[:-1] and isinstance(p[-1], int) and p[-1] < q[-1])
        if ps:
            a, b = d(st.sampled_from(ps))
            rename(b, a)
        else:
            inner = [x for x in defs if len(x["path"]) > 1 and isinstance(x["path"][-1], int)]
            if inner and d(st.integers(0, 3)) > 0:
                a = d(st.sampled_from(inner))
                jget(spec, a["path"][:-1]).append(extra_param(a["id"]))
            else:
                tops = [x for x in defs if len(x["path"]) == 1]
                a = d(st.sampled_from(tops or defs))
                spec.append(extra_param(a["id"]))
        return kind
    if kind == "dup_ancestor":
        ps = any_pairs(lambda p, q: _is_prefix(p, q))
        if ps and d(st.integers(0, 3)) > 0:
            ps = unreferenced_first(ps, 1)
            a, b = ps[0] if d(st.booleans()) else d(st.sampled_from(ps))
            rename(b, a)
        elif d(st.booleans()):
            # wrap: a new view whose inline parameter carries the view's own id
            id_ = g.fresh()
            spec.append({"id": id_, "type": "ViewParameter", "indices": "0:1", "parameter": {"id": id_, "type": "Parameter", "tensor": [0.5, 1.5]}})
        else:
            # a holder that enters the id table by itself (between its taxa and its heights): each of its
            # inline children in turn carries the holder's id
            x = g.fresh(True)
            names = [g.fresh(True), g.fresh(True), g.fresh(True)]
            ids = {"taxa": g.fresh(), "heights": g.fresh()}
            where = d(st.sampled_from(["taxa", "taxon", "heights"]))
            if where == "taxon":
                names[d(st.integers(0, 2))] = x
            else:
                ids[where] = x
            spec.append({
                "id": x, "type": d(st.sampled_from(["FlexibleTimeTreeModel", "TimeTreeModel", "torchtree.evolution.tree_model_flexible.FlexibleTimeTreeModel"])),
                "newick": "((%s,%s),%s);" % tuple(names),
                "taxa": {"id": ids["taxa"], "type": "Taxa", "taxa": [{"id": n, "type": "Taxon", "attributes": {"date": 0.0}} for n in names]},
                "internal_heights": {"id": ids["heights"], "type": "Parameter", "tensor": [1.0, 2.5]},
            })
        return kind
    if kind == "dup_distant":
        ps = any_pairs(lambda p, q: p[0] == q[0] and not _is_prefix(p, q) and not _is_prefix(q, p) and p[:-1] != q[:-1] and p < q)
        if ps:
            a, b = d(st.sampled_from(ps))
            rename(b, a)
            return kind
        kind = "dup_toplevel"
    if kind == "dup_toplevel":
        ps = any_pairs(lambda p, q: p[0] < q[0])
        if ps:
            a, b = d(st.sampled_from(ps))
            rename(b, a)
        else:
            a = d(st.sampled_from(defs))
            spec.append(extra_param(a["id"]))
        return kind
    if kind in ("dangling", "forward", "enclosing", "not_object", "plate_not_in_list"):
        sites = [("ref", r) for r in refs] + [("def", x) for x in defs if len(x["path"]) > 1 and isinstance(x["path"][-1], str)]
        if kind in ("not_object", "plate_not_in_list"):
            sites = [s for s in sites if s[0] == "def" and "parameters" not in s[1]["path"][-2:]] + [("ref", r) for r in refs if r["strict"]]
            sites = [s for s in sites if not (kind == "plate_not_in_list" and isinstance(s[1]["path"][-1], int))]
        if kind == "enclosing":
            sites = [s for s in sites if any(_is_prefix(x["path"], s[1]["path"]) for x in defs)]
        if not sites:
            if kind == "enclosing":
                id_ = g.fresh()
                spec.append({"id": id_, "type": "ViewParameter", "indices": "0:1", "parameter": id_})
                return kind
            spec.append({"id": g.fresh(), "type": "ViewParameter", "indices": "0:1", "parameter": 3 if kind == "not_object" else "nowhere"})
            return kind if kind == "not_object" else "dangling"
        # slots that are optional for their holder deserve their share: a loader that falls back to the
        # default there would accept the specification silently
        opt = [x for x in sites if x[1]["path"][-1] in ("mu", "invariant")]
        what, s = d(st.sampled_from(opt if (opt and d(st.booleans())) else sites))
        if what == "def":
            # the whole inline definition is replaced: forget what it defined
            gone = [x for x in defs if x["path"][: len(s["path"])] == s["path"]]
            gone_ids = {x["id"] for x in gone}
            for r in refs:
                if r["id"] in gone_ids and r["path"][: len(s["path"])] != s["path"]:
                    pass  # these become dangling as well: still one kind of fault (dangling)
        # spellings that a loader could confuse with something else: the keys of the enclosing object
        # and of its ancestors, names of registered classes, "id", "type" (only if not defined anywhere)
        sus = []
        for k in range(len(s["path"])):
            o = jget(spec, s["path"][:k])
            if isinstance(o, dict):
                sus += [key for key in o if isinstance(key, str)]
        sus += ["id", "type", "Parameter", "Distribution", "torchtree.Parameter", "parameters", "x"]
        sus = sorted({n for n in sus if n not in g.used and "{" not in n and not n.endswith("*")})
        if kind == "dangling":
            plain = ["nowhere", "undefined.id", "zz", ""]
            jset(spec, s["path"], d(st.sampled_from(sus if (sus and d(st.booleans())) else plain)))
        elif kind == "forward":
            if sus and d(st.booleans()):
                id_ = d(st.sampled_from(sus))
                g.used.add(id_)
            else:
                id_ = g.fresh()
            jset(spec, s["path"], id_)
            spec.append(extra_param(id_))
        elif kind == "enclosing":
            enc = [x for x in defs if _is_prefix(x["path"], s["path"])]
            jset(spec, s["path"], d(st.sampled_from(enc))["id"])
        elif kind == "not_object":
            jset(spec, s["path"], d(st.sampled_from([3, 0.5, None, True])))
        else:
            jset(spec, s["path"], {"type": "torchtree.Plate", "range": "0:2", "var": "i", "object": extra_param(g.fresh() + ".${i}")})
        return kind
    if kind in ("missing_id", "missing_type", "unknown_type"):
        s = d(st.sampled_from(defs))
        o = jget(spec, s["path"])
        if kind == "missing_id":
            del o["id"]
        elif kind == "missing_type":
            del o["type"]
        else:
            o["type"] = d(st.sampled_from(["Nope", "torchtree.Nope", "torchtree.nope.Nope", "torchtree.core.parameter.Nope", "parameter", ""]))
        return kind
    if kind == "plate_dup":
        # the nested id does not contain the plate variable: every clone defines it again
        stem = g.fresh()
        inner = g.fresh()
        spec.append(
            {"id": g.fresh(), "type": "CatParameter", "parameters": [
                {"type": "torchtree.Plate", "range": "0:2", "var": "i", "object": {
                    "id": stem + ".${i}", "type": "ViewParameter", "indices": ":", "parameter": {"id": inner, "type": "Parameter", "tensor": [1.0]}}}]}
        )
        return kind
    raise ValueError(kind)


# --------------------------------------------------------------------------- decorations
JUNK = [
    {"id": "a", "type": "Parameter", "tensor": [9.0], "ignore": True},
    {"id": "x", "type": "Nope", "ignore": True},
    {"type": "Parameter", "ignore": True},
    {"ignore": True},
    {"id": "junk", "type": "ViewParameter", "parameter": "nowhere", "indices": "0:1", "ignore": True},
    {"type": "torchtree.Plate", "range": "0:2", "var": "i", "object": {"id": "a.${i}", "type": "Parameter", "tensor": [1.0]}, "ignore": True},
]
COMMENTS = ["text", 3, None, ["a", "b"], {"id": "a", "type": "Parameter", "tensor": [1.0]}, {"_nested": 1}]


def decorate(g, spec, live_ids, ghosts=False):
    """sprinkle things that must have no effect; returns the number of decorations"""
    d = g.d
    leaves = [x.id for x in g.nodes if x.kind == "vec" and x.cls == "Parameter" and getattr(x, "updatable", False)] if ghosts else None
    dicts, lists = [], []

    objs = []  # live objects: may carry an explicit "ignore": <false>, which keeps them

    def walk(o, path):
        if isinstance(o, dict):
            dicts.append(path)
            if "type" in o and "ignore" not in o:
                objs.append(path)
            for k, v in o.items():
                walk(v, path + [k])
        elif isinstance(o, list):
            if not o or any(isinstance(e, (dict, str, list)) for e in o):
                lists.append(path)
            for i, e in enumerate(o):
                walk(e, path + [i])

    walk(spec, [])
    n = d(st.integers(2, 5) if ghosts else st.integers(1, 4))
    done = 0
    # dict decorations first (do not move anything), list insertions afterwards from the back
    ins = []
    for _ in range(n):
        r = d(st.integers(0, 3))
        if r == 3 and objs:
            jget(spec, d(st.sampled_from(objs)))["ignore"] = d(st.sampled_from([False, False, 0, None]))
            done += 1
        elif r == 0 and dicts:
            o = jget(spec, d(st.sampled_from(dicts)))
            key = d(st.sampled_from(["_comment", "_", "_x", "_id", "_ignore", "_parameters"]))
            o[key] = copy.deepcopy(d(st.sampled_from(COMMENTS)))
            done += 1
        elif r == 1 and dicts:
            o = jget(spec, d(st.sampled_from(dicts)))
            key = d(st.sampled_from(["extra", "note", "mu2", "zz", "old"]))
            if key not in o:
                o[key] = junk(d, live_ids, leaves)
                done += 1
        elif lists:
            ins.append(d(st.sampled_from(lists)))
    for path in sorted(ins, key=lambda p: [str(x) for x in p], reverse=True):
        lst = jget(spec, path)
        pos = d(st.integers(0, len(lst)))
        lst.insert(pos, junk(d, live_ids, leaves))
        done += 1
    return done


def junk(d, live_ids, leaves=None):
    if leaves is not None and d(st.integers(0, 2)) > 0:
        # ignored Runnables (they would write a ghost file) and ignored plates
        leaf = d(st.sampled_from(leaves)) if leaves else "nowhere"
        k = d(st.integers(0, 3))
        ign = d(st.sampled_from([True, True, 1]))
        if k == 0:
            return {"id": "ghost", "type": "Logger", "parameters": [leaf], "file_name": "ghost-a.csv", "ignore": ign}
        if k == 1:
            return {"type": "torchtree.Plate", "range": "0:2", "var": "i", "ignore": ign,
                    "object": {"id": "ghost.${i}", "type": "Logger", "parameters": [leaf], "file_name": "ghost-b.csv"}}
        if k == 2:
            return {"ignore": ign, "type": "Plate", "range": "1:3", "object": {"id": "ghostp.*", "type": "Parameter", "tensor": [1.0]}}
        return {"type": "torchtree.Plate", "range": "0:1", "var": "k", "object": {"id": "ghostq.${k}", "type": "Parameter", "tensor": [1.0], "_c": 1}, "ignore": ign}
    j = copy.deepcopy(d(st.sampled_from(JUNK)))
    if "id" in j and live_ids and d(st.booleans()):
        j["id"] = d(st.sampled_from(sorted(live_ids)))
    if d(st.integers(0, 4)) == 0:
        j["ignore"] = 1
    return j


# --------------------------------------------------------------------------- the strategy
@st.composite
def cases(draw, max_top=6, loggers=False, heavy=False):
    """loggers: Runnable Logger objects among the top-level elements; heavy: always decorated, with
    ignored Runnables and ignored plates among the decorations"""
    g = Gen(draw, max_top, loggers)
    spec = g.program()
    intent = "none"
    if draw(st.sampled_from([False, False, True]) if heavy else st.booleans()):
        intent = inject(g, spec, draw(st.sampled_from(FAULTS)))
    ndec = 0
    if heavy or draw(st.booleans()):
        ndec = decorate(g, spec, g.used, ghosts=heavy)
    upd = {}
    ups = [x for x in g.nodes if getattr(x, "updatable", False)]
    if ups:
        # prefer parameters that have several holders
        cnt = {x.id: (1 if len(x.path) > 1 else 0) + sum(r["id"] == x.id and len(r["path"]) > 1 for r in g.refs) for x in ups}
        hot = [x for x in ups if cnt[x.id] >= 2]
        k = draw(st.integers(1, min(3, len(ups))))
        for j in range(k):
            x = draw(st.sampled_from(hot if (hot and j == 0) else ups))
            if x.dom == "heights":
                h, cur = [], 2.0
                for _ in range(x.n):
                    cur += draw(fl(0.1, 3.0))
                    h.append(cur)
                upd[x.id] = h
            else:
                upd[x.id] = g.values(x.dom, x.n)
    return {"spec": spec, "updates": upd, "route": draw(st.integers(0, 7)), "intent": intent, "ndec": ndec}


def cases_main():
    return cases(max_top=5, loggers=True, heavy=True)
