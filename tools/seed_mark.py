#!/venv/bin/python
"""record that a seeded change is now caught:  tools/seed_mark.py NAME CHECKS 'what was added'"""
import json, sys
name, checks, what = sys.argv[1:4]
p = "/verif/seeded/%s/meta.json" % name
m = json.load(open(p))
m["caught_by"] = [x for x in checks.split(",") if x]
m["history"] = (m.get("history", "") + "; " if m.get("history") else "") + what
m["ran"] = "tools/seed_eval.py %s seeded/%s/patch.diff seeded/%s/demo.py --checks %s" % (name, name, name, checks)
json.dump(m, open(p, "w"), indent=1)
