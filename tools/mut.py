#!/venv/bin/python
"""Apply one textual mutation to a scratch worktree of /repo, run the repository's tests and
the given checks against it, report, and remove the worktree.

  tools/mut.py NAME FILE OLD NEW CHECK[,CHECK...] [--only SUBS] [--no-tests] [--patch FILE.diff]
"""
import argparse, os, subprocess, sys, shutil, time

ap = argparse.ArgumentParser()
ap.add_argument("name"); ap.add_argument("file", nargs="?"); ap.add_argument("old", nargs="?"); ap.add_argument("new", nargs="?")
ap.add_argument("--checks", required=True)
ap.add_argument("--only", default=None); ap.add_argument("--no-tests", action="store_true"); ap.add_argument("--patch")
ap.add_argument("--count", type=int, default=1); ap.add_argument("--keep", action="store_true"); ap.add_argument("--tier", default="quick")
a = ap.parse_args()
wt = "/tmp/wt-mut-%s" % a.name
subprocess.run(["git", "-C", "/repo", "worktree", "remove", "--force", wt], capture_output=True)
shutil.rmtree(wt, ignore_errors=True)
subprocess.run(["git", "-C", "/repo", "worktree", "add", "--detach", wt, "HEAD"], check=True, capture_output=True)
try:
    if a.patch:
        subprocess.run(["git", "-C", wt, "apply", os.path.abspath(a.patch)], check=True)
    else:
        p = os.path.join(wt, a.file)
        s = open(p).read()
        if s.count(a.old) != a.count:
            print("MUTATION-ERROR: pattern occurs %d times (expected %d)" % (s.count(a.old), a.count)); sys.exit(3)
        open(p, "w").write(s.replace(a.old, a.new))
    tests = "skipped"
    if not a.no_tests:
        r = subprocess.run(["/venv/bin/python", "-m", "pytest", "-q", "-x", "-p", "no:cacheprovider", "test", "torchtree"], cwd=wt, capture_output=True, text=True,
                           env=dict(os.environ, PYTHONPATH=wt))
        tests = "pass" if r.returncode == 0 else "FAIL (%s)" % r.stdout.strip().splitlines()[-1][:100]
    print("mutant %s: repo tests %s" % (a.name, tests))
    for chk in a.checks.split(","):
        cmd = ["/verif/check", chk, "--tier", a.tier, "--no-evidence"] + (["--only", a.only] if a.only else [])
        t0 = time.time()
        r = subprocess.run(cmd, capture_output=True, text=True, env=dict(os.environ, VT_REPO=wt))
        viol = [l for l in r.stdout.splitlines() if l.startswith("VIOLATION") or l.startswith("  bucket") or l.startswith("HARNESS")]
        print("  %s exit=%d %.0fs %s" % (chk, r.returncode, time.time() - t0, "CAUGHT" if r.returncode == 1 else ("SURVIVED" if r.returncode == 0 else "HARNESS-ERROR")))
        for l in viol[:6]:
            print("     " + l[:260])
        if r.returncode == 2:
            print(r.stdout[-1500:])
finally:
    if not a.keep:
        subprocess.run(["git", "-C", "/repo", "worktree", "remove", "--force", wt], capture_output=True)
        shutil.rmtree(wt, ignore_errors=True)
