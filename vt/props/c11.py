"""C11 - cached values never go stale (histories of parameter updates vs a fresh rebuild)."""
import copy
import math

import numpy as np
import torch
from hypothesis import strategies as st

from vt import phylo, tt
from vt.cmp import arr, maxrel
from vt.gen.basic import fl, logu
from vt.runner import Res, Sub, guarded, raises_kind

PROPERTY = "C11"
LEVEL = "exploration"
RULE = (
    "A generated model graph (G1 time-tree posterior: likelihood with HKY/GTR/MG94, Weibull(+invariant), strict or per-branch clock, ratio or "
    "shift heights, skygrid coalescent + GMRF, priors and a joint that includes the Jacobian terms; G2 unrooted tree + gamma-Dirichlet prior; "
    "G3 birth-death skyline whose origin is an affine transform with the root height as `loc`; G4 distributions over views and "
    "concatenations of a shared base), in which generated leaf parameters sit behind exp / sigmoid / stick-breaking / affine "
    "TransformedParameters, is loaded from JSON and every object is evaluated. Then a generated history of 2-12 operations is applied: "
    "assign a leaf's tensor, assign through a view, through a concatenation, through a transformed parameter (inverse path), draw with "
    "sample()/rsample() of a distribution, propose with an MCMC operator and accept or reject, in-place update followed by the change "
    "notification (what the optimiser does), toggle requires_grad, or evaluate a subset. After every operation a generated subset of all "
    "callable models, derived parameters and tree/site-model outputs is compared (1e-12 relative) with a freshly loaded copy of the "
    "specification holding the current leaf values; any exception out of an update is a violation. Non-trivial = the history contains "
    "evaluate -> update -> evaluate on a dependent object (always, by construction, when an update changes a leaf). Distinct = (graph, "
    "decorations, operation names and targets)."
)
ASSUMPTIONS = [
    "only the update routes the property lists are generated; Parameter.copy_ and raw in-place indexing without notification are not the public interface",
    "in-place routes (MCMC operators, assignment through a view) are applied only to tensors that do not require grad: torch forbids in-place modification of a leaf that requires grad, and no caller in the library combines them",
    "exact ties between event times are avoided (generated values are continuous)",
]


# ------------------------------------------------------------------ helpers on specifications
def walk(spec, fn):
    """apply fn(dict) to every dict in the spec; fn may return a replacement"""
    if isinstance(spec, list):
        for i, x in enumerate(spec):
            r = walk(x, fn)
            if r is not None:
                spec[i] = r
    elif isinstance(spec, dict):
        for k in list(spec.keys()):
            r = walk(spec[k], fn)
            if r is not None:
                spec[k] = r
        return fn(spec)
    return None


def leaves_of(spec):
    out = []

    def f(d):
        if d.get("type") == "Parameter" and "tensor" in d and "full" not in d and "id" in d:
            out.append(d["id"])

    walk(spec, f)
    return out


def with_leaf_values(spec, values):
    spec = copy.deepcopy(spec)

    def f(d):
        if d.get("type") == "Parameter" and d.get("id") in values:
            d["tensor"] = values[d["id"]]

    walk(spec, f)
    return spec


def wrap_transformed(spec, pid, kind):
    """replace the leaf Parameter `pid` by a TransformedParameter with the same id over `pid.unres`"""
    sb = torch.distributions.StickBreakingTransform()

    def f(d):
        if d.get("type") == "Parameter" and d.get("id") == pid and "tensor" in d:
            v = torch.tensor(d["tensor"], dtype=torch.float64)
            if kind == "exp":
                x, tr, par = v.log(), "torch.distributions.ExpTransform", None
            elif kind == "sigmoid":
                x, tr, par = torch.log(v / (1 - v)), "torch.distributions.SigmoidTransform", None
            elif kind == "stick":
                x, tr, par = sb.inv(v), "torch.distributions.StickBreakingTransform", None
            elif kind == "affine":
                x, tr, par = (v - 0.5) / 2.0, "torch.distributions.AffineTransform", {"loc": 0.5, "scale": 2.0}
            out = {"id": pid, "type": "TransformedParameter", "transform": tr, "x": tt.P(pid + ".unres", x.tolist())}
            if par:
                out["parameters"] = par
            return out

    walk(spec, f)
    return spec


# ------------------------------------------------------------------ graphs
DOMAIN = {"kappa": "pos", "rates": "pos", "freqs": "simplex", "shape": "pos", "pinv": "unit", "mu": "pos", "bl": "pos", "ratios": "unit",
          "root_height": "root", "shifts": "pos", "rate": "pos", "clock.rates": "pos", "alpha": "pos", "beta": "pos", "heights": None}


@st.composite
def graph_case(draw):
    g = draw(st.sampled_from(["G1", "G1", "G2", "G3", "G4", "G5", "G6", "G7"]))
    c = {"graph": g}
    if g in ("G1", "G2", "G3", "G5"):
        fam = draw(st.sampled_from(["nucleotide", "nucleotide", "codon"])) if g == "G1" else "nucleotide"
        kinds = {"G1": ("ratio", "shift"), "G2": ("unrooted_tensor",), "G3": ("ratio",), "G5": ("ratio", "shift")}[g]
        names = ["HKY", "GTR"] if fam == "nucleotide" else None
        like = draw(phylo.like_case(families=(fam,), nmax=4 if fam == "codon" else 5, tree_kinds=kinds, names=names))
        like["tip"] = "noamb"
        c["like"] = like
        cands = [p for p in ("kappa", "rates", "freqs", "shape", "pinv", "alpha", "beta", "rate") if True]
        c["wraps"] = {p: draw(st.sampled_from([None, None, {"kappa": "exp", "rates": "exp", "freqs": "stick", "shape": "exp", "pinv": "sigmoid", "alpha": "exp", "beta": "exp", "rate": "exp"}[p]])) for p in cands}
        if g == "G1":
            c["coal"] = draw(st.sampled_from(["constant", "skygrid", "skyride", "exponential", "linear"]))
            c["theta"] = [draw(logu(0.5, 50.0)) for _ in range(4)]
            c["theta_wrap"] = draw(st.booleans())
        if g == "G2":
            c["gd"] = [draw(logu(0.3, 3.0)) for _ in range(4)]
        if g == "G3":
            c["bd"] = {"R": [draw(logu(0.5, 3)) for _ in range(2)], "delta": [draw(logu(0.3, 2)) for _ in range(2)], "s": [draw(fl(0.1, 0.8)) for _ in range(2)],
                       "rho": [0.0, draw(fl(0.1, 0.9))], "offset": draw(logu(0.1, 2.0)), "times": draw(st.sampled_from(["default", "relative", "absolute"])), "loc": draw(st.sampled_from(["plain", "view", "transformed"]))}
    elif g == "G6":
        c["base"] = [draw(fl(-2, 2)) for _ in range(6)]
        c["pos"] = [draw(logu(0.2, 5)) for _ in range(12)]
    elif g == "G7":
        c["base"] = [draw(fl(-2, 2)) for _ in range(8)]
        c["pos"] = [draw(logu(0.2, 5)) for _ in range(6)]
        c["q"] = draw(st.sampled_from(["single", "meanfield"]))
        c["samples"] = draw(st.sampled_from([1, 3, [4]]))
    else:
        c["base"] = [draw(fl(-2, 2)) for _ in range(6)]
        c["pos"] = [draw(logu(0.2, 5)) for _ in range(3)]
    if g == "G5":
        # the tree model alone: its Jacobian call and a prior on the heights, nobody else reads the heights
        c["observe_heights"] = draw(st.booleans())
        c["wraps"] = {k: None for k in c["wraps"]}
    nops = draw(st.integers(2, 12))
    c["ops"] = [{"op": draw(st.sampled_from(OPS)), "t": draw(st.integers(0, 1000)), "u": [draw(fl(0.001, 0.999)) for _ in range(8)],
                 "flag": draw(st.booleans()), "mask": draw(st.integers(0, 2 ** 16 - 1)), "seed": draw(st.integers(0, 10 ** 6))} for _ in range(nops)]
    return c


HUBS = ("base", "ratios", "root_height", "shifts", "scale.unres", "aff.loc", "shape")
OPS = ["assign", "assign", "assign", "view", "cat", "transformed", "sample", "rsample", "operator", "inplace", "requires_grad", "eval", "anon", "nudge", "nudge", "bad_value", "bad_shape"]

# G6: models whose hyper-parameters are written as constants: each becomes a Parameter without an id held by the model
# alone.  (model id, position among the model's anonymous parameters, path of the constant in the specification, domain)
G6_ANON = [("n", 0, ("n", "parameters", "loc"), "real"), ("n", 1, ("n", "parameters", "scale"), "pos"),
           ("gam", 0, ("gam", "parameters", "concentration"), "pos"), ("gam", 1, ("gam", "parameters", "rate"), "pos"),
           ("gd", 0, ("gd", "alpha"), "pos"), ("gd", 1, ("gd", "c"), "pos"), ("gd", 2, ("gd", "shape"), "pos"), ("gd", 3, ("gd", "rate"), "pos")]


def g6_spec(c, consts=None):
    b, q = c["base"], c["pos"]
    k = consts or {("n", "parameters", "loc"): b[3:6], ("n", "parameters", "scale"): [q[0]], ("gam", "parameters", "concentration"): q[1:3],
                   ("gam", "parameters", "rate"): [q[3]], ("gd", "alpha"): q[4], ("gd", "c"): q[5], ("gd", "shape"): q[6], ("gd", "rate"): q[7]}
    spec = [
        tt.P("x", b[:3]),
        {"id": "n", "type": "Distribution", "distribution": "torch.distributions.Normal", "x": "x",
         "parameters": {"loc": k[("n", "parameters", "loc")], "scale": k[("n", "parameters", "scale")]}},
        {"id": "gam", "type": "Distribution", "distribution": "torch.distributions.Gamma", "x": tt.P("y", q[8:10]),
         "parameters": {"concentration": k[("gam", "parameters", "concentration")], "rate": k[("gam", "parameters", "rate")]}},
        {"id": "taxa", "type": "Taxa", "taxa": [{"id": t, "type": "Taxon"} for t in "ABCD"]},
        {"id": "tree", "type": "UnRootedTreeModel", "newick": "((A,B),(C,D));", "taxa": "taxa", "branch_lengths": tt.P("bl", [0.1 * x for x in q[:5]])},
        {"id": "gd", "type": "CompoundGammaDirichletPrior", "tree_model": "tree", "alpha": k[("gd", "alpha")], "c": k[("gd", "c")], "shape": k[("gd", "shape")], "rate": k[("gd", "rate")]},
        {"id": "joint", "type": "JointDistributionModel", "distributions": ["n", "gam", "gd"]},
    ]
    return spec, k


def build_spec(c):
    """-> (spec list, domains: leaf id -> domain, operators spec)"""
    g = c["graph"]
    dom = {}
    if g == "G6":
        spec, _ = g6_spec(c, c.get("_consts"))
        return spec, {"x": "real", "y": "pos", "bl": "pos"}
    if g == "G7":
        # a variational objective with the analytic entropy: q is sampled and asked for its entropy but never called.
        # The model p does not depend on the sampled variable, so the objective is a deterministic function of the
        # parameters:  sum log N(data | m, s) + entropy(q)
        b, q = c["base"], c["pos"]
        spec = [{"id": "q1", "type": "Distribution", "distribution": "torch.distributions.Normal", "x": tt.P("z1", b[:2]),
                 "parameters": {"loc": tt.P("q.loc", b[2:4]), "scale": tt.P("q.scale", q[:2])}}]
        if c["q"] == "meanfield":
            spec.append({"id": "q2", "type": "Distribution", "distribution": "torch.distributions.LogNormal", "x": tt.P("z2", q[4:5]),
                         "parameters": {"loc": tt.P("q2.loc", b[6:7]), "scale": tt.P("q2.scale", q[5:6])}})
            spec.append({"id": "q", "type": "JointDistributionModel", "distributions": ["q1", "q2"]})
        spec += [{"id": "p", "type": "Distribution", "distribution": "torch.distributions.Normal", "x": tt.P("data", b[4:6]),
                  "parameters": {"loc": tt.P("m", b[7:8]), "scale": tt.P("s", q[2:3])}},
                 {"id": "joint", "type": "ELBO", "variational": "q" if c["q"] == "meanfield" else "q1", "joint": "p", "samples": c["samples"], "entropy": True}]
        dom = {"q.loc": "real", "q.scale": "pos", "m": "real", "s": "pos"}
        if c["q"] == "meanfield":
            dom.update({"q2.loc": "real", "q2.scale": "pos"})
        return spec, dom
    if g == "G4":
        spec = [
            tt.P("base", c["base"]),
            {"id": "v1", "type": "ViewParameter", "parameter": "base", "indices": "0:3"},
            {"id": "v2", "type": "ViewParameter", "parameter": "base", "indices": "3:6"},
            {"id": "v3", "type": "ViewParameter", "parameter": "base", "indices": "1:5"},
            # consumers that reach the base parameter directly and through an overlapping sibling view
            {"id": "nbase", "type": "Distribution", "distribution": "torch.distributions.Normal", "x": "base", "parameters": {"loc": tt.P("lb", [0.1, 0.2, -0.1, 0.0, 0.3, -0.3]), "scale": tt.P("sb", [2.0])}},
            {"id": "n3", "type": "Distribution", "distribution": "torch.distributions.Normal", "x": "v3", "parameters": {"loc": tt.P("l3", [-0.2]), "scale": tt.P("s3b", [1.3])}},
            {"id": "n1", "type": "Distribution", "distribution": "torch.distributions.Normal", "x": "v1",
             "parameters": {"loc": tt.P("loc", [0.3]), "scale": {"id": "scale", "type": "TransformedParameter", "transform": "torch.distributions.ExpTransform", "x": tt.P("scale.unres", [0.1])}}},
            {"id": "n2", "type": "Distribution", "distribution": "torch.distributions.Normal", "x": "v2", "parameters": {"loc": "v1", "scale": tt.P("s2", [1.5, 0.7, 1.1])}},
            {"id": "gam", "type": "Distribution", "distribution": "torch.distributions.Gamma", "x": [tt.P("a", c["pos"][:2]), tt.P("b", c["pos"][2:])],
             "parameters": {"concentration": tt.P("conc", [2.0, 2.5, 3.0]), "rate": "scale"}},
            {"id": "ln", "type": "Distribution", "distribution": "torch.distributions.LogNormal", "x": "scale", "parameters": {"loc": "loc", "scale": tt.P("s3", [0.8])}},
            # transformed parameters over the shared base and over a view of it: a write through any sibling must reach them
            {"id": "tb", "type": "TransformedParameter", "transform": "torch.distributions.SigmoidTransform", "x": "base"},
            {"id": "tv", "type": "TransformedParameter", "transform": "torch.distributions.ExpTransform", "x": "v3"},
            # a concatenation one of whose elements is a transformed parameter with a parameter inside its transform
            {"id": "aff", "type": "TransformedParameter", "transform": "torch.distributions.AffineTransform", "parameters": {"loc": tt.P("aff.loc", [0.4]), "scale": 2.0},
             "x": tt.P("aff.x", [0.2, -0.3])},
            {"id": "ncat", "type": "Distribution", "distribution": "torch.distributions.Normal", "x": [tt.P("ca", [0.5]), "aff"], "parameters": {"loc": tt.P("lcat", [0.1, -0.2, 0.3]), "scale": tt.P("scat", [1.7, 0.9, 1.2])}},
            # a concatenation of a plain parameter and a view of the shared one-dimensional base: an assignment of a
            # batch through it fails part-way (the view cannot take it)
            {"id": "nview", "type": "Distribution", "distribution": "torch.distributions.Normal", "x": [tt.P("cb", [0.2]), "v1"],
             "parameters": {"loc": tt.P("lview", [0.0, 0.1, -0.1, 0.2]), "scale": tt.P("sview", [1.1, 0.8, 1.3, 0.9])}},
            {"id": "joint", "type": "JointDistributionModel", "distributions": ["n1", "n2", "n3", "nbase", "gam", "ln", "scale", "tb", "tv", "ncat", "nview"]},
        ]
        dom = {"base": "real", "loc": "real", "scale.unres": "real", "s2": "pos", "a": "pos", "b": "pos", "conc": "pos", "s3": "pos", "lb": "real", "sb": "pos", "l3": "real", "s3b": "pos",
               "aff.loc": "real", "aff.x": "real", "ca": "real", "lcat": "real", "scat": "pos", "cb": "real", "lview": "real", "sview": "pos"}
        return spec, dom
    like = c["like"]
    spec = phylo.like_spec(like)
    n = phylo.case_topo(like).n
    if g == "G5":
        tree = spec[-1]["tree_model"]
        kind5 = like["tree"]["kind"]
        pid = "root_height" if kind5 == "ratio" else "shifts"
        spec = [spec[0], tree,
                {"id": "prior.h", "type": "Distribution", "distribution": "torch.distributions.Exponential", "x": pid, "parameters": {"rate": tt.P("prior.h.rate", [0.3])}},
                {"id": "joint", "type": "JointDistributionModel", "distributions": ["tree", "prior.h"]}]
        dom = {l: (DOMAIN.get(l) if l in DOMAIN else "pos") for l in leaves_of(spec)}
        return spec, dom
    joint = ["like"]
    for pid, kind in c["wraps"].items():
        if kind:
            before = str(spec)
            wrap_transformed(spec, pid, kind)
            if str(spec) != before:
                joint.append(pid)  # its Jacobian term
    tkind = like["tree"]["kind"]
    if tkind in ("ratio", "shift"):
        joint.append("tree")
    if g == "G1":
        m = c["coal"]
        theta_n = {"constant": 1, "exponential": 1, "skyride": n - 1}.get(m, 4)
        theta = tt.P("theta", c["theta"][:theta_n] if theta_n <= 4 else (c["theta"] * n)[:theta_n])
        if c["theta_wrap"]:
            tmp = [theta]
            wrap_transformed(tmp, "theta", "exp")
            theta = tmp[0]
            joint.append("theta")
        coal = {"id": "coal", "type": phylo_cls(m), "theta": theta, "tree_model": "tree"}
        if m == "exponential":
            coal["growth"] = tt.P("growth", [0.3])
        if m in ("skygrid", "linear"):
            coal["cutoff"] = 7.5
        spec.append(coal)
        joint.append("coal")
        if m in ("skygrid", "skyride") and theta_n >= 2:
            spec.append({"id": "gmrf", "type": "GMRF", "x": "theta.unres" if c["theta_wrap"] else "theta", "precision": tt.P("gmrf.precision", [0.7]), "tree_model": "tree"} if False else
                        {"id": "gmrf", "type": "GMRF", "x": "theta.unres" if c["theta_wrap"] else "theta", "precision": tt.P("gmrf.precision", [0.7])})
            joint.append("gmrf")
        spec.append({"id": "prior.rate", "type": "Distribution", "distribution": "torch.distributions.Exponential", "x": "rate" if like["tree"]["clock"]["kind"] == "strict" else "clock.rates",
                     "parameters": {"rate": tt.P("prior.rate.rate", [10.0])}})
        joint.append("prior.rate")
    if g == "G2":
        a, cc, sh, rt = c["gd"]
        spec.append({"id": "gd", "type": "CompoundGammaDirichletPrior", "tree_model": "tree", "alpha": tt.P("gd.alpha", [a]), "c": tt.P("gd.c", [cc]),
                     "shape": tt.P("gd.shape", [sh]), "rate": tt.P("gd.rate", [rt])})
        joint.append("gd")
    if g == "G3":
        bd = c["bd"]
        # the transform's own parameter (loc) is the root height itself, a view of it, or a transformed parameter
        loc = "root_height"
        if bd.get("loc") == "view":
            spec.append({"id": "root_height.view", "type": "ViewParameter", "parameter": "root_height", "indices": "0:1"})
            loc = "root_height.view"
        elif bd.get("loc") == "transformed":
            spec.append({"id": "root_height.affine", "type": "TransformedParameter", "transform": "torch.distributions.AffineTransform",
                         "parameters": {"loc": 0.25, "scale": 1.0}, "x": "root_height"})
            loc = "root_height.affine"
        spec.append({"id": "origin", "type": "TransformedParameter", "transform": "torch.distributions.AffineTransform",
                     "parameters": {"loc": loc, "scale": 1.0}, "x": tt.P("origin.offset", [bd["offset"]])})
        bdsk = {"id": "bdsk", "type": "BDSKModel", "tree_model": "tree", "R": tt.P("bd.R", bd["R"]), "delta": tt.P("bd.delta", bd["delta"]), "s": tt.P("bd.s", bd["s"]),
                "rho": tt.P("bd.rho", bd["rho"]), "origin": "origin"}
        if bd.get("times") == "relative":
            bdsk["times"] = {"id": "bd.times", "type": "Parameter", "tensor": [0.0, 0.55], "_comment": "fractions of the origin"}
            bdsk["relative_times"] = True
        elif bd.get("times") == "absolute":
            bdsk["times"] = [0.0, 0.37]
        spec.append(bdsk)
        joint.append("bdsk")
    spec.append({"id": "joint", "type": "JointDistributionModel", "distributions": joint})
    for lid in leaves_of(spec):
        base = lid[:-6] if lid.endswith(".unres") else lid
        if lid.endswith(".unres"):
            dom[lid] = "real"
        elif base in DOMAIN:
            dom[lid] = DOMAIN[base]
        elif lid.startswith("theta") or lid in ("gmrf.precision", "prior.rate.rate", "gd.alpha", "gd.c", "gd.shape", "gd.rate", "bd.R", "bd.delta", "origin.offset"):
            dom[lid] = "pos"
        elif lid == "bd.s":
            dom[lid] = "unit"
        elif lid == "bd.rho":
            dom[lid] = "rho"
        elif lid == "growth":
            dom[lid] = "real"
        else:
            dom[lid] = None
    return spec, dom


def phylo_cls(m):
    return {"constant": "ConstantCoalescentModel", "exponential": "ExponentialCoalescentModel", "skyride": "PiecewiseConstantCoalescentModel",
            "skygrid": "PiecewiseConstantCoalescentGridModel", "linear": "PiecewiseLinearCoalescentGridModel"}[m]


def load(spec):
    dic = {}
    for el in spec:
        tt.build(el, dic)
    return dic


def new_values(domain, shape, u, current, dic):
    n = int(np.prod(shape)) if len(shape) else 1
    us = (u * (n // len(u) + 1))[:n]
    if domain == "pos":
        v = [math.exp(3.0 * x - 1.5) for x in us]
    elif domain == "real":
        v = [4.0 * x - 2.0 for x in us]
    elif domain == "unit":
        v = [0.02 + 0.96 * x for x in us]
    elif domain == "rho":
        v = [0.0] * (n - 1) + [0.05 + 0.9 * us[-1]]
    elif domain == "simplex":
        e = [math.exp(2.0 * x) for x in us]
        v = [x / sum(e) for x in e]
    elif domain == "root":
        tree = dic.get("tree")
        lo = float(tree.sampling_times.max()) if tree is not None else 0.0
        v = [lo + 0.1 + 5.0 * us[0]]
    else:
        return None
    return torch.tensor(v, dtype=torch.float64).reshape(shape)


def observables(dic):
    """name -> numpy value for everything the property speaks about"""
    from torchtree.core.abstractparameter import AbstractParameter
    from torchtree.core.model import CallableModel
    from torchtree.evolution.site_model import SiteModel
    from torchtree.evolution.tree_model import TreeModel

    out = {}
    for k, o in dic.items():
        if isinstance(o, CallableModel) or (isinstance(o, AbstractParameter) and callable(o)):
            out["call:" + k] = o
        if isinstance(o, AbstractParameter):
            out["tensor:" + k] = o
        if isinstance(o, TreeModel):
            out["branch_lengths:" + k] = o
        if isinstance(o, SiteModel):
            out["rates:" + k] = o  # rates() then probabilities()
            out["probs:" + k] = o  # probabilities() then rates()
    return out


def observe(name, o):
    kind = name.split(":")[0]
    if kind == "call":
        return arr(o())
    if kind == "tensor":
        return arr(o.tensor)
    if kind == "branch_lengths":
        return arr(o.branch_lengths())
    if kind == "rates":
        return np.concatenate([arr(o.rates()).reshape(-1), arr(o.probabilities()).reshape(-1)])
    if kind == "probs":
        pr = arr(o.probabilities()).reshape(-1)
        return np.concatenate([arr(o.rates()).reshape(-1), pr])


def body(c):
    spec, dom = build_spec(c)
    dic = load(spec)
    leaves = [l for l in leaves_of(spec) if dom.get(l)]
    # parameters read by many consumers (through views, concatenations, transforms) are targeted more often
    leaves = leaves + [l for l in leaves if l in HUBS] * 5
    obs = observables(dic)
    if c.get("observe_heights") is False:
        obs = {k: v for k, v in obs.items() if not k.startswith("branch_lengths:")}
    if c["graph"] == "G7":
        # the variational distribution is never called and the variables it samples are not compared (fresh draws)
        obs = {k: v for k, v in obs.items() if k.split(":", 1)[1] not in ("q", "q1", "q2", "z1", "z2")}
    names = sorted(obs)
    for nme in names:  # fill every cache
        observe(nme, obs[nme])
    from torchtree.core.parameter import CatParameter, TransformedParameter, ViewParameter
    from torchtree.distributions.distributions import Distribution

    views = sorted(k for k, o in dic.items() if isinstance(o, ViewParameter) and k != "root_height.view")
    tps = sorted(k for k, o in dic.items() if isinstance(o, TransformedParameter) and k not in ("origin", "root_height.affine"))
    dists = sorted(k for k, o in dic.items() if isinstance(o, Distribution) and not k.startswith("prior") and type(o.x).__name__ in ("Parameter", "CatParameter"))
    cats = sorted(k for k, o in dic.items() if isinstance(o, Distribution) and isinstance(o.x, CatParameter))
    tree = dic.get("tree")
    if tree is not None and hasattr(tree, "_internal_heights") and isinstance(tree._internal_heights, CatParameter):
        cats.append("tree")
    seq = []
    g = c["graph"]
    res = Res(tags={"graph": g})
    updated = False
    for step, op in enumerate(c["ops"]):
        k = op["op"]
        torch.manual_seed(op["seed"])
        target = None
        exc = None
        if k == "assign" and leaves:
            target = leaves[op["t"] % len(leaves)]
            p = dic[target]
            v = new_values(dom[target], tuple(p.tensor.shape), op["u"], p.tensor, dic)
            if v is None:
                continue
            v = v.requires_grad_(p.tensor.requires_grad) if p.tensor.requires_grad else v

            def f():
                p.tensor = v

            _, exc = guarded(f)
        elif k == "view" and views:
            target = views[op["t"] % len(views)]
            vw = dic[target]
            if vw.parameter.tensor.requires_grad:
                continue  # torch forbids in-place modification of a leaf that requires grad
            v = new_values("real", tuple(vw.tensor.shape), op["u"], None, dic)

            def f():
                vw.tensor = v

            _, exc = guarded(f)
        elif k == "cat" and cats:
            target = cats[op["t"] % len(cats)]
            cat = dic[target].x if target != "tree" else tree._internal_heights
            parts = list(cat._parameter_container.params()) if hasattr(cat, "_parameter_container") else []
            if any(isinstance(q, ViewParameter) and q.parameter.tensor.requires_grad for q in parts):
                continue  # the assignment is written into the view in place: torch forbids that on a leaf that requires grad
            if target == "tree":
                nn = tree.taxa_count
                v = torch.cat([new_values("unit", (nn - 2,), op["u"], None, dic), new_values("root", (1,), op["u"][::-1], None, dic)])
            else:
                v = new_values("pos", tuple(cat.tensor.shape), op["u"], None, dic)

            def f():
                cat.tensor = v

            _, exc = guarded(f)
        elif k == "transformed" and tps:
            target = tps[op["t"] % len(tps)]
            tp = dic[target]
            cur = tp.tensor.detach()
            trn = type(tp.transform).__name__
            d = {"ExpTransform": "pos", "SigmoidTransform": "unit", "StickBreakingTransform": "simplex", "AffineTransform": "real"}.get(trn)
            if d is None:
                continue
            if isinstance(tp.x, ViewParameter) and tp.x.parameter.tensor.requires_grad:
                continue  # assignment goes through the view: torch forbids in-place modification of a leaf that requires grad
            v = new_values(d, tuple(cur.shape), op["u"], None, dic)

            def f():
                tp.tensor = v

            _, exc = guarded(f)
        elif k in ("sample", "rsample") and dists:
            target = dists[op["t"] % len(dists)]
            dd = dic[target]
            members = list(dd.x._parameter_container.params()) if isinstance(dd.x, CatParameter) else [dd.x]
            if any(isinstance(q, ViewParameter) and q.parameter.tensor.requires_grad for q in members):
                continue  # a draw is written into the view in place: torch forbids that on a leaf that requires grad
            if any(q.requires_grad for q in dd.x.parameters()) and k == "sample":
                pass

            def f():
                getattr(dd, k)()

            _, exc = guarded(f)
        elif k == "operator" and leaves:
            cand = [l for l in leaves if dom[l] in ("pos", "real") and not dic[l].tensor.requires_grad and dic[l].tensor.dim() == 1]
            if not cand:
                continue
            target = cand[op["t"] % len(cand)]
            p = dic[target]
            from torchtree.inference.mcmc.operator import ScalerOperator, SlidingWindowOperator

            oper = ScalerOperator("op", [p], 1.0, 0.24, 0.3 + 0.5 * op["u"][0]) if dom[target] == "pos" else SlidingWindowOperator("op", [p], 1.0, 0.24, 0.1 + op["u"][0])

            def f():
                oper.step()
                # the target is evaluated between the proposal and the decision, as MCMC.run does
                observe("call:joint", dic["joint"])
                if op["flag"]:
                    oper.accept()
                else:
                    oper.reject()

            _, exc = guarded(f)
            k = "operator_" + ("accept" if op["flag"] else "reject")
        elif k == "inplace" and leaves:
            cand = [l for l in leaves if dom[l] in ("pos", "real")]
            if not cand:
                continue
            target = cand[op["t"] % len(cand)]
            p = dic[target]

            def f():
                with torch.no_grad():
                    if dom[target] == "pos":
                        p.tensor.mul_(0.5 + op["u"][0])
                    else:
                        p.tensor.add_(op["u"][0] - 0.5)
                p.fire_parameter_changed()

            _, exc = guarded(f)
        elif k == "nudge" and leaves:
            # a move far below any "nothing changed" tolerance a cache could apply (1e-7 relative), by assignment or in place
            cand = [l for l in leaves if dom[l] in ("pos", "real")]
            if not cand:
                continue
            target = cand[op["t"] % len(cand)]
            p = dic[target]
            fac = 1.0 + (1e-7 if op["u"][0] < 0.5 else -1e-7)
            if op["flag"] or p.tensor.requires_grad:
                def f():
                    nv = (p.tensor.detach() * fac).requires_grad_(p.tensor.requires_grad)
                    p.tensor = nv
            else:
                def f():
                    with torch.no_grad():
                        p.tensor.mul_(fac)
                    p.fire_parameter_changed()

            _, exc = guarded(f)
        elif k == "bad_shape" and cats:
            # an assignment through a concatenation that cannot succeed (wrong length / a batch of draws into a
            # view of a one-dimensional base): whether it raises or not, later valid updates must still be observed
            target = cats[op["t"] % len(cats)]
            cat = dic[target].x if target != "tree" else tree._internal_heights
            shp = tuple(cat.tensor.shape)
            if any(isinstance(q, ViewParameter) and q.parameter.tensor.requires_grad for q in cat._parameter_container.params()):
                continue
            bad = new_values("pos", (4,) + shp if op["flag"] else (shp[0] + 1,) + shp[1:], op["u"], None, dic)
            before = {l: dic[l].tensor.detach().clone() for l in leaves_of(spec)}

            def f():
                cat.tensor = bad

            _, e_bad = guarded(f)
            if e_bad is None or any(tuple(dic[l].tensor.shape) != tuple(before[l].shape) for l in before):
                # accepted (or partly applied): put the previous values back piece by piece
                for l, old in before.items():
                    if tuple(dic[l].tensor.shape) != tuple(old.shape) or not torch.equal(dic[l].tensor.detach(), old):
                        dic[l].tensor = old
            k = "bad_shape_" + ("raised" if e_bad is not None else "accepted")
        elif k == "bad_value" and leaves:
            # a value outside the support: where the model rejects it (the fresh copy raises), the live object must
            # raise as well, on this and on the next request - an evaluation that failed must not leave a cached answer
            cand = [l for l in leaves if dom[l] == "pos" and not dic[l].tensor.requires_grad]
            if not cand:
                continue
            target = cand[op["t"] % len(cand)]
            p = dic[target]
            good = p.tensor.detach().clone()
            p.tensor = -good
            values = {l: dic[l].tensor.detach().tolist() for l in leaves_of(spec)}
            _, exc_fresh = guarded(lambda: observe("call:joint", load(with_leaf_values(spec, values))["joint"]))
            if isinstance(exc_fresh, (ValueError, RuntimeError, AssertionError)):
                _, e1 = guarded(observe, "call:joint", dic["joint"])
                _, e2 = guarded(observe, "call:joint", dic["joint"])
                if e1 is None or e2 is None:
                    seq.append((k, target))
                    res.fail("answered_after_error", {"step": step, "target": target, "first_request_raised": e1 is not None, "second_request_raised": e2 is not None,
                                                     "fresh_copy": type(exc_fresh).__name__, "history": seq}, rule=k, bucket=k, target=target)
                    break
                k = "bad_value_rejected"
            p.tensor = good
        elif k == "requires_grad" and leaves:
            target = leaves[op["t"] % len(leaves)]
            p = dic[target]
            if not p.tensor.is_leaf:
                continue  # the result of a reparameterised draw: torch only lets the flag of a leaf tensor change

            def f():
                p.requires_grad = not p.tensor.requires_grad

            _, exc = guarded(f)
        elif k == "anon" and g == "G6":
            mid, pos, path, d = G6_ANON[op["t"] % len(G6_ANON)]
            target = mid
            anon = [q for q in dic[mid].parameters() if q.id is None]
            if len(anon) <= pos:
                raise AssertionError("harness: model %s holds %d parameters without id" % (mid, len(anon)))
            q = anon[pos]
            v = new_values(d, tuple(q.tensor.shape), op["u"], None, dic)
            consts = dict(c.get("_consts") or g6_spec(c)[1])
            cur = consts[path]
            consts[path] = v.tolist() if isinstance(cur, list) else float(v.reshape(-1)[0])
            c = dict(c, _consts=consts)
            spec, dom = build_spec(c)
            k = "anon:%s.%s" % (mid, path[-1])
            if op["flag"]:
                def f():
                    q.tensor = v
            else:
                def f():
                    with torch.no_grad():
                        q.tensor.copy_(v)
                    q.fire_parameter_changed()

            _, exc = guarded(f)
        elif k == "eval":
            pass
        else:
            continue
        seq.append((k, target))
        tkind = type(dic[target]).__name__ if target in dic else None
        if exc is not None:
            res.fail(raises_kind(exc), {"step": step, "op": k, "target": target, "message": str(exc)[:300], "history": seq}, rule=k, bucket=k + ":" + str(tkind), target=target)
            break
        if k != "eval":
            updated = True
        # ---- compare a generated subset with a fresh rebuild holding the same leaf values
        values = {l: dic[l].tensor.detach().tolist() for l in leaves_of(spec)}
        fresh = load(with_leaf_values(spec, values))
        fobs = observables(fresh)
        bad = None
        for i, nme in enumerate(names):
            # after an update of a site-model parameter the probabilities-first accessor order is always observed
            forced = nme.startswith("probs:") and isinstance(target, str) and target.split(".")[0] in ("shape", "pinv", "mu")
            if not (op["mask"] >> (i % 16)) & 1 and k != "eval" and not forced:
                continue
            got, exc2 = guarded(observe, nme, obs[nme])
            if exc2 is not None:
                bad = (nme, raises_kind(exc2), {"message": str(exc2)[:300]})
                break
            want = observe(nme, fobs[nme])
            if maxrel(got, want) > 1e-12:
                bad = (nme, "stale", {"got": np.asarray(got).reshape(-1)[:6].tolist(), "fresh": np.asarray(want).reshape(-1)[:6].tolist()})
                break
        if bad:
            nme, kind, detail = bad
            ocls = type(dic[nme.split(":", 1)[1]]).__name__
            detail.update(step=step, op=k, target=target, observed=nme, history=seq)
            res.fail(kind, detail, rule=k, stale_cls=ocls, bucket=k + "->" + ocls, target=target)
            break
    res.nontrivial = updated and len(seq) >= 2
    res.key = (g, {k_: v for k_, v in c.get("wraps", {}).items() if v}, c.get("coal"), [(a, b) for a, b in seq])
    res.labels = tuple(sorted({a for a, _ in seq})) + (g,)
    return res


def pretags(c):
    return {"graph": c["graph"]}


def subchecks(tier):
    return [Sub("history", body, strategy=graph_case, quick=800, thorough=40000, pretags=pretags, shrink_s=40)]
