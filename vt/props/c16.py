"""C16 - the leapfrog integrator is reversible and volume preserving; the HMC operator's
Hastings term is the change in kinetic energy."""
import contextlib
import math

import numpy as np
import torch
from hypothesis import strategies as st

from vt import tt
from vt.cmp import arr, maxabs
from vt.gen.basic import fl, logu
from vt.oracle import leapfrog as lf
from vt.runner import Res, Sub, guarded

PROPERTY = "C16"
LEVEL = "exploration"
RULE = (
    "Hypothesis draws a target (a: 'block' = one independent block per operator parameter, each a Normal, "
    "a gamma variable written through an exp TransformedParameter with its Jacobian in the joint, a gamma density "
    "on an untransformed positive parameter, or a MultivariateNormal with generated SPD precision; b: 'mvn' = one MultivariateNormal over the "
    "concatenation of all operator parameters; c: 'phylo' = 4-taxon unrooted tree likelihood (JC69 / HKY with "
    "kappa / HKY with stick-breaking frequencies) x CLI priors x Jacobians, random alignment of 4-12 sites), "
    "dimension 1..8 split over 1-3 parameters, step size log-uniform [1e-3,0.5], L in 1..30, mass matrix "
    "identity (vector or matrix) / diagonal / dense generated SPD, start point and momentum. Everything is "
    "built from its JSON specification (JointDistributionModel, LeapfrogIntegrator, Hamiltonian, HMCOperator). "
    "A case is non-trivial when the harness-side reference trajectory is finite, its round-off amplification "
    "(probe) is below the guard, and the position moves by more than 1e-6 (for 'energy': additionally the "
    "reference energy errors are in the asymptotic window; for 'volume': the finite-difference error bound is "
    "below 1e-7; for 'operator': histories step-accept/reject-step-...-step with the mass matrix given in the "
    "specification or assigned afterwards; for 'hamiltonian': every query evaluated). "
    "distinct = (sub-check, the complete generated case)."
)
ASSUMPTIONS = [
    "reference = textbook leapfrog in numpy; gradients of Normal / gamma(exp) / MVN targets are closed forms; for "
    "the phylogenetic posterior the gradient is autograd on a second, separately built instance of the same "
    "specification (the density itself is the subject of C01/C12, not of C16)",
    "guard (all sub-checks): the reference trajectory is finite, its scale S stays below 1e4, and the round-off probe (reference re-run with a "
    "relative perturbation 1e-9 injected at every gradient and position update) is amplified by less than 1e3; "
    "cases beyond that (unstable step size for the target's curvature) are counted but nothing is asserted, "
    "because the property holds there only 'up to round-off' that is amplified without bound",
    "guard (targets): positions of gamma blocks stay within |x| <= 500 (exp(x) representable); phylogenetic "
    "trajectories keep log branch lengths in [-12,3] and log kappa / stick-breaking coordinates within 4 (beyond, "
    "the density's own gradient loses digits), and HKY trajectories stay away from kappa = 1 (5e-2 on log kappa) / "
    "pi_A+pi_G = 1/2 (1e-2) where the rate "
    "matrix has a repeated eigenvalue and the eigendecomposition-based gradient is 0/0 (DESIGN 8 #21, a finding of "
    "C12/C19, not of the integrator)",
    "tolerances are relative to the trajectory scale S = max(1, |q|, |p|, eps*|grad|) along the reference: "
    "differential 1e-10*S, reversal 1e-9*L*S, determinant 1e-6 when the Richardson error bound of the central-"
    "difference Jacobian (steps 2.5e-4 and 1.25e-4 times max(1,|z_i|)) propagated through the inverse is < 1e-7",
    "energy: err(eps)/err(eps/2) (fixed integration time: L and 2L steps; also eps/2 vs eps/4) is asserted to lie "
    "in [3,5] only when the reference leapfrog's own signed ratio lies in [3.6,4.4], |reference err(finer)| >= 1e-9 * "
    "max(1,|H0|) (>= 1e6 x round-off of H) and >= 1e-3 x the change of the final energy under the probe's 1e-9 "
    "perturbations (so rounding, 1e5 times smaller, moves the errors by < 1%), and all three reference runs pass "
    "the guard; an integrator that agrees with the reference up to round-off therefore cannot fail it",
    "hamiltonian: Hamiltonian(...)(momentum=, inverse_mass_matrix= | mass_matrix=) is compared with -log density + "
    "p'M^-1p/2 for sequences of 2-4 queries; queries at the position of the previous query are the known finding "
    "C16-hamiltonian-call-stale and are generated separately from sequences that always move",
    "operator_retry: gamma densities on untransformed positive parameters with step sizes >= 0.1: a trajectory that "
    "leaves the support makes the density raise ValueError and the operator retries; every momentum draw is recorded "
    "and the Hastings term must be K(p_used) - K(p') for the LAST draw; an abandoned draw is legitimate only if the "
    "reference trajectory for it leaves the support / the guard",
    "sequence / operator_gibbs: one integrator (operator) instance is used for 3 trajectories (a history of steps); "
    "between two of them every OTHER parameter of the target (loc/scale/concentration/rate/precision of the blocks; "
    "prior rate, kappa or frequencies of the phylogenetic target) is assigned new values through Parameter.tensor while "
    "the positions stay where the previous trajectory left them; each trajectory is compared with the reference "
    "leapfrog of the CURRENT target and the first one after the change is also reversed; non-trivial only when the "
    "change moves the gradient at that position by > 1e-6",
    "retune / operator_retune: between the trajectories of one integrator (operator) instance the step size and "
    "number of steps are reassigned through the public routes - attribute assignment, LeapfrogIntegrator."
    "load_state_dict, AdaptiveStepSize.learn / DualAveragingStepSize.learn, HMCOperator.tune (with and without "
    "adaptors), set_adaptable_parameter, find_reasonable_step_size in the constructor - and the mass matrix is "
    "reassigned (Parameter.tensor); the reference uses the values read back from the public attributes "
    "(step_size, steps, mass matrix parameter) at the moment of the trajectory, whatever value the adaptor chose "
    "(how adaptors choose it is not C16's subject); find_reasonable_step_size is used on Normal / MVN targets only "
    "and a raise inside it is counted, not asserted; HMCOperator.load_state_dict belongs to C17",
    "wide_*: every coordinate has its own scale s_i in 1e-4..1e3; the target's spread there is s_i and the mass "
    "f_i/s_i^2 with f_i in 0.03..30 (diagonal masses 3e-8..3e9), dense mass matrices D^1/2 R D^1/2 (condition "
    "numbers up to ~1e11), centres up to 1e5 spreads from the origin, step sizes 1e-6..0.5, momenta with the "
    "scale of N(0,M). Tolerances are relative to conditioning: per component 1e-2 x the deviation caused by "
    "relative perturbations of 1e-9 in every gradient (relative to the sum of the magnitudes of its terms) / drift / mass-matrix entry and 1e-11 in every stored "
    "position (i.e. agreement up to relative errors of 1e-11 per operation, 1e-13 per stored position, ~1e5 / "
    "1e3 units of round-off, all of one sign so that they accumulate linearly, with whatever amplification the mass matrix, the position magnitude and the "
    "trajectory give them), plus 1e-14 of the component's magnitude; reversal 10 x (forward + return); the Hastings "
    "term additionally 1e-2 x the change of K under the 1e-9-perturbed inverse mass matrix. Guard: whitened "
    "speed grows by < 1e3 and the probe moves the whitened trajectory by < 1e5 x 1e-9 of its speed",
    "mixed_*: float64 positions with a float32 mass matrix (JSON Parameter with dtype torch.float32, diagonal entries "
    "powers of two so that the inverse is exact), a step size that is a float32 number (the library forms step_size * "
    "inverse_mass_matrix in float32) and float32 momentum (exactly representable): the integrator "
    "promotes the momentum to float64 at the first kick, so differential / reversal / energy order / the operator's "
    "proposal are asserted at the float64 tolerances; the operator's Hastings term at 2e-6 relative because K(p0) is "
    "computed by the library in single precision; a dense float32 matrix raises a dtype error in the unchanged "
    "integrator (float32 @ float64) - counted under the label mixed_dense_raises, not asserted",
    "operator_failure: gamma targets started at x in [2,7] with step sizes >= 0.1 overflow exp(x); an attempt may "
    "be abandoned only where the reference trajectory for that momentum is itself outside the guard; when the "
    "operator gives up (+inf) the position must be bit-identical to the one before the step",
    "operator: momenta are recorded by temporarily wrapping Hamiltonian.sample_momentum and "
    "LeapfrogIntegrator.__call__ from the harness (class attribute replaced and restored); the distribution of the "
    "momentum draw is not tested (statistical); torch.manual_seed comes from the case",
    "parameters are vectors (what the CLI emits); scalar or batched parameters under HMC are not generated",
]

AMP_MAX = 1e3
ETA = 1e-9
ETA_Q = 1e-11
WIDE_FACT = 1e-2
SCALE_MAX = 1e4
FD_H = 2.5e-4
TOPOLOGIES = ["((A:0.1,B:0.1):0.1,C:0.1,D:0.1);", "((A:0.1,C:0.1):0.1,B:0.1,D:0.1);", "((A:0.1,D:0.1):0.1,B:0.1,C:0.1);"]
TAXA = ["A", "B", "C", "D"]
PHYLO_MODELS = {"JC69": [5], "HKY_kappa": [5, 1], "HKY_freqs": [5, 3]}
PHYLO_HYPER = {"pb.rate": [10.0], "kappa": [2.5], "freqs": [0.3, 0.2, 0.15, 0.35]}


# ----------------------------------------------------------------------------- generation
def _spread(values):
    """the same values in bit-reversed order of their rank: Hypothesis favours the first entries of a
    sampled_from list, so any prefix of the list should cover the whole range (the first entry, which is
    what shrinking converges to, stays the smallest)"""
    values = list(values)
    nb = max(1, (len(values) - 1).bit_length())
    order = sorted(range(len(values)), key=lambda i: int(format(i, "0%db" % nb)[::-1], 2))
    return [values[i] for i in order]


def _logu_grid(lo, hi):
    """log-uniform on a grid of 4096 points, drawn as two small choices (floats are biased to their end
    points and wide integer ranges to small values, small ranges are drawn evenly)"""
    a, b = math.log(lo), math.log(hi)
    coarse = [i ^ 32 for i in _spread(range(64))]  # first (= simplest) entry in the middle of the range
    return st.tuples(st.sampled_from(coarse), st.sampled_from(range(64))).map(
        lambda t: min(hi, max(lo, math.exp(a + (b - a) * (64 * t[0] + t[1]) / 4095.0)))
    )


def _spd(draw, d, smin, smax, cmin):
    B = np.array([[draw(fl(-1.0, 1.0)) for _ in range(d)] for _ in range(d)], dtype=float).reshape(d, d)
    c = draw(fl(cmin, 1.0))
    s = draw(logu(smin, smax))
    A = s * (B @ B.T / d + c * np.eye(d))
    A = 0.5 * (A + A.T)
    return A.tolist()


def _mass(draw, d, kind):
    if kind == "identity":
        return {"kind": kind, "M": [1.0] * d}
    if kind == "identity_dense":
        return {"kind": kind, "M": np.eye(d).tolist()}
    if kind == "diag":
        return {"kind": kind, "M": [draw(logu(0.2, 5.0)) for _ in range(d)]}
    return {"kind": "dense", "M": _spd(draw, d, 0.3, 3.0, 0.2)}


def _block(draw, kind, n):
    if kind == "normal":
        return {"kind": kind, "n": n, "loc": [draw(fl(-3.0, 3.0)) for _ in range(n)], "scale": [draw(logu(0.2, 5.0)) for _ in range(n)]}
    if kind == "gamma":
        return {"kind": kind, "n": n, "conc": [draw(logu(0.3, 8.0)) for _ in range(n)], "rate": [draw(logu(0.2, 5.0)) for _ in range(n)]}
    if kind == "gamma_raw":
        # concentration > 1: the density vanishes at 0 (mode inside the support)
        return {"kind": kind, "n": n, "conc": [draw(logu(1.5, 8.0)) for _ in range(n)], "rate": [draw(logu(0.5, 5.0)) for _ in range(n)]}
    return {"kind": "mvn", "n": n, "loc": [draw(fl(-3.0, 3.0)) for _ in range(n)], "prec": _spd(draw, n, 0.1, 10.0, 0.05)}


@st.composite
def wide_cases(draw, operator=False, max_L=30):
    """targets and mass matrices of very different scales: every coordinate has its own scale s_i (1e-4 .. 1e3,
    half decades), the target's spread in that coordinate is s_i and the mass is f_i / s_i^2 (f_i within a factor
    30 of the ideal 1/variance), so diagonal masses run over 3e-8 .. 3e9; dense matrices are D^1/2 R D^1/2 with a
    generated correlation-like R (condition numbers up to ~1e11); centres up to 1e5 spreads away from the origin
    (positions of large magnitude), step sizes down to 1e-6"""
    c = {"target": "block", "wide": True}
    c["eps"] = draw(_logu_grid(1e-6, 0.5))
    c["L"] = draw(st.sampled_from(_spread(range(1, max_L + 1))))
    mass_kind = draw(st.sampled_from(["diag", "diag", "dense"]))
    if operator:
        c["decisions"] = draw(st.sampled_from([["accept"], ["reject"], ["accept", "reject"], ["reject", "accept"]]))
        c["mass_route"] = draw(st.sampled_from(["spec", "assigned"]))
        c["torch_seed"] = draw(st.integers(0, 2**31 - 1))
    d = draw(st.sampled_from(_spread(range(1, 9))))
    npar = draw(st.sampled_from([k for k in (1, 3, 2) if k <= d]))
    cuts = sorted(draw(st.lists(st.integers(1, d - 1), min_size=npar - 1, max_size=npar - 1, unique=True))) if npar > 1 else []
    edges = [0] + cuts + [d]
    sizes = [edges[i + 1] - edges[i] for i in range(npar)]
    half = list(range(-8, 7)) if mass_kind == "diag" else list(range(-5, 5))
    blocks, q0, scales = [], [], []
    for n in sizes:
        kind = draw(st.sampled_from(["normal", "mvn", "gamma_raw", "gamma", "normal"]))
        s = [1.0 if kind == "gamma" else 10.0 ** (draw(st.sampled_from(_spread(half))) / 2.0) for _ in range(n)]
        far = [draw(st.sampled_from([0.0, 0.0, 1.0, 10.0, 1e2, 1e3, 1e4, 1e5])) * draw(st.sampled_from([1.0, -1.0])) for _ in range(n)]
        if kind == "normal":
            loc = [si * fi for si, fi in zip(s, far)]
            blocks.append({"kind": kind, "n": n, "loc": loc, "scale": list(s)})
            q0 += [m + si * draw(fl(-3.0, 3.0)) for m, si in zip(loc, s)]
        elif kind == "mvn":
            loc = [si * fi for si, fi in zip(s, far)]
            R = np.asarray(_spd(draw, n, 1.0, 1.0, 0.3))
            dg = np.sqrt(np.diag(R))
            R = R / np.outer(dg, dg)
            A = R / np.outer(s, s)
            blocks.append({"kind": kind, "n": n, "loc": loc, "prec": (0.5 * (A + A.T)).tolist()})
            q0 += [m + si * draw(fl(-3.0, 3.0)) for m, si in zip(loc, s)]
        elif kind == "gamma_raw":
            blocks.append({"kind": kind, "n": n, "conc": [draw(logu(1.5, 8.0)) for _ in range(n)], "rate": [1.0 / si for si in s]})
            q0 += [si * draw(fl(0.5, 4.0)) for si in s]
        else:
            blocks.append(_block(draw, "gamma", n))
            q0 += [draw(fl(-2.0, 2.0)) for _ in range(n)]
        scales += s
    f = [10.0 ** (draw(st.sampled_from([0, 1, -1, 2, -2, 3, -3])) / 2.0) for _ in range(d)]
    D = np.array([fi / (si * si) for fi, si in zip(f, scales)])
    if mass_kind == "diag":
        c["mass"] = {"kind": "diag", "M": D.tolist()}
        Lc = np.diag(np.sqrt(D))
    else:
        R = np.asarray(_spd(draw, d, 1.0, 1.0, 0.2))
        dg = np.sqrt(np.diag(R))
        R = R / np.outer(dg, dg)
        Mm = np.sqrt(np.outer(D, D)) * R
        Mm = 0.5 * (Mm + Mm.T)
        c["mass"] = {"kind": "dense", "M": Mm.tolist()}
        Lc = np.linalg.cholesky(Mm)
    c["blocks"] = blocks
    c["sizes"] = sizes
    c["q0"] = q0
    if not operator:
        # momentum with the scale the operator would draw it with: p = chol(M) z
        z = np.array([draw(fl(-3.0, 3.0)) for _ in range(d)])
        c["p0"] = (Lc @ z).tolist()
    return c


@st.composite
def cases(draw, targets=("block", "block", "mvn", "phylo"), max_L=30, phylo_max_L=30, eps_lo=1e-3, masses=("identity", "identity_dense", "diag", "diag", "dense", "dense"), operator=False, harsh=False, raw=False, update=False, mixed=False, retune=False):
    target = draw(st.sampled_from(list(targets)))
    c = {"target": target}
    # the knobs first, the bulk of the numbers afterwards (late draws of a long example are the
    # ones Hypothesis fills with minimal values when it runs out of entropy)
    eps = draw(_logu_grid(eps_lo, 0.5))
    L = draw(st.sampled_from(_spread(range(1, (phylo_max_L if target == "phylo" else max_L) + 1))))
    mass_kind = draw(st.sampled_from(list(masses)))
    if update:
        c["update_at"] = draw(st.sampled_from([0, 1]))  # after which trajectory the other parameters change
    if retune:
        # what is reassigned between the trajectories of one integrator / operator instance, and by which route
        kinds = ["assign_eps", "assign_steps", "assign_both", "load_state", "adaptor", "mass"]
        if operator:
            kinds += ["tune", "tune", "set_adaptable"]
            c["adaptor"] = draw(st.sampled_from(["none", "adaptive", "dual", "none"]))
            c["find_reasonable"] = draw(st.sampled_from([False, False, True]))
            c["decisions"] = draw(st.sampled_from([["accept", "accept"], ["accept", "reject"], ["reject", "accept"], ["reject", "reject"]]))
        else:
            c["adaptor"] = draw(st.sampled_from(["adaptive", "dual"]))
        ev = []
        for _ in range(2):
            k = draw(st.sampled_from(kinds))
            e = {"kind": k, "eps": draw(_logu_grid(1e-3, 0.5)), "L": draw(st.sampled_from(_spread(range(1, max_L + 1)))), "prob": draw(st.sampled_from(_spread([i / 16.0 for i in range(17)])))}
            ev.append(e)
        c["events"] = ev
    if operator:
        if not retune:
            c["decisions"] = draw(st.sampled_from([["accept"], ["reject"], ["accept", "reject"], ["reject", "accept"], ["accept", "accept"], ["reject", "reject"]]))
        c["mass_route"] = draw(st.sampled_from(["spec", "assigned"]))
        c["torch_seed"] = draw(st.integers(0, 2**31 - 1))
    if target == "phylo":
        model = draw(st.sampled_from(sorted(PHYLO_MODELS)))
        sizes = list(PHYLO_MODELS[model])
        nsites = draw(st.integers(4, 12))
        c["model"] = model
        c["topology"] = draw(st.integers(0, 2))
        c["seqs"] = ["".join(draw(st.sampled_from("ACGTACGTACGTACGTN-")) for _ in range(nsites)) for _ in range(4)]
        q0 = [draw(fl(-4.0, -0.5)) for _ in range(5)]
        if model == "HKY_kappa":
            q0 += [draw(fl(0.3, 2.0))]
        elif model == "HKY_freqs":
            q0 += [draw(fl(0.1, 1.0)) for _ in range(3)]
    else:
        d = draw(st.sampled_from(_spread(range(1, 9))))
        npar = draw(st.sampled_from([k for k in (1, 3, 2) if k <= d]))
        cuts = sorted(draw(st.lists(st.integers(1, d - 1), min_size=npar - 1, max_size=npar - 1, unique=True))) if npar > 1 else []
        edges = [0] + cuts + [d]
        sizes = [edges[i + 1] - edges[i] for i in range(npar)]
        if target == "mvn":
            c["blocks"] = [_block(draw, "mvn", d)]
            q0 = [draw(fl(-3.0, 3.0)) for _ in range(d)]
        else:
            blocks, q0 = [], []
            for n in sizes:
                if harsh:
                    kind = "gamma"
                elif raw:
                    # gamma densities on untransformed positive parameters: a trajectory that steps out of
                    # the support makes the density raise, the operator retries with a new momentum
                    kind = draw(st.sampled_from(["gamma_raw", "gamma_raw", "normal"])) if len(blocks) else "gamma_raw"
                elif c.get("find_reasonable"):
                    kind = draw(st.sampled_from(["normal", "mvn"]))
                else:
                    kind = draw(st.sampled_from(["normal", "gamma", "gamma", "mvn", "gamma_raw"]))
                blocks.append(_block(draw, kind, n))
                # harsh: start far in the tail of exp(x), where large steps overflow (numerical failure path)
                rng = fl(2.0, 7.0) if harsh else {"gamma": fl(-2.0, 2.0), "gamma_raw": fl(0.2, 1.5) if raw else fl(0.3, 3.0)}.get(kind, fl(-3.0, 3.0))
                q0 += [draw(rng) for _ in range(n)]
            c["blocks"] = blocks
    d = sum(sizes)
    c["sizes"] = sizes
    c["q0"] = q0
    c["eps"] = eps
    c["L"] = L
    c["mass"] = _mass(draw, d, mass_kind)
    if retune:
        for e in c["events"]:
            if e["kind"] == "mass":
                e["M"] = _mass(draw, d, mass_kind if mass_kind in ("diag", "dense") else ("diag" if mass_kind == "identity" else "dense"))["M"]
    if mixed:
        # float64 positions with a single-precision mass matrix (what {"ones": n} without dtype gives under a
        # float32 default dtype) and hence single-precision momentum. All single-precision inputs are exactly
        # representable: diagonal entries are powers of two (so is their inverse), momenta are rounded to float32
        c["precision"] = "mass32"
        # step_size * inverse_mass_matrix is a float32 product in the library (python scalar x float32 tensor):
        # with a step size that is itself a float32 number and power-of-two masses that product is exact, so the
        # float64 reference with the same numbers describes the same trajectory
        c["eps"] = float(np.float32(c["eps"]))
        if c["mass"]["kind"] == "diag":
            c["mass"]["M"] = [2.0 ** draw(st.sampled_from([0, 1, -1, 2, -2])) for _ in range(d)]
    if update:
        # a second set of values for every OTHER parameter of the target (same structure): what another
        # operator of a Metropolis-within-Gibbs chain would change between two HMC moves
        if target == "phylo":
            h2 = {"pb.rate": [draw(fl(3.0, 30.0))]}
            if c["model"] == "HKY_freqs":
                h2["kappa"] = [draw(fl(1.5, 6.0))]
            elif c["model"] == "HKY_kappa":
                r = draw(fl(0.1, 0.4))
                r = 1.0 - r if draw(st.booleans()) else r  # pi_A + pi_G, away from 1/2
                u, v = draw(fl(0.2, 0.8)), draw(fl(0.2, 0.8))
                h2["freqs"] = [r * u, (1.0 - r) * v, r * (1.0 - u), (1.0 - r) * (1.0 - v)]
            c["hyper2"] = h2
        else:
            c["blocks2"] = [_block(draw, b["kind"], b["n"]) for b in c["blocks"]]
    if not operator:
        if update:
            c["p1"] = [draw(fl(-3.0, 3.0)) for _ in range(d)]
        c["p0"] = [draw(fl(-3.0, 3.0)) for _ in range(d)]
        if mixed:
            c["p0"] = [float(np.float32(x)) for x in c["p0"]]
    return c


# ----------------------------------------------------------------------------- building (public route: JSON)
def target_spec(c):
    """list of top-level JSON elements; the last one is the joint; operator parameters are x0, x1, ..."""
    sizes = c["sizes"]
    q0 = c["q0"]
    vals, s = [], 0
    for n in sizes:
        vals.append(q0[s : s + n])
        s += n
    if c["target"] == "phylo":
        hyper = dict(PHYLO_HYPER)
        hyper.update(c.get("hyper", {}))
        ids = ["tree.blens.unres"] + ({"JC69": [], "HKY_kappa": ["kappa.unres"], "HKY_freqs": ["freqs.unres"]}[c["model"]])
        blens = {"id": "tree.blens", "type": "TransformedParameter", "transform": "torch.distributions.ExpTransform", "x": tt.P(ids[0], vals[0])}
        dists, jac = [], ["tree.blens"]
        if c["model"] == "JC69":
            subst = {"id": "subst", "type": "JC69"}
        else:
            if c["model"] == "HKY_kappa":
                kappa = {"id": "kappa", "type": "TransformedParameter", "transform": "torch.distributions.ExpTransform", "x": tt.P(ids[1], vals[1])}
                freqs = tt.P("freqs", hyper["freqs"])
                dists.append({"id": "pk", "type": "Distribution", "distribution": "torch.distributions.LogNormal", "x": "kappa", "parameters": {"loc": 1.0, "scale": 1.25}})
                jac.append("kappa")
            else:
                kappa = tt.P("kappa", hyper["kappa"])
                freqs = {"id": "freqs", "type": "TransformedParameter", "transform": "torch.distributions.StickBreakingTransform", "x": tt.P(ids[1], vals[1])}
                dists.append({"id": "pf", "type": "Distribution", "distribution": "torch.distributions.Dirichlet", "x": "freqs", "parameters": {"concentration": [1.0, 1.0, 1.0, 1.0]}})
                jac.append("freqs")
            subst = {"id": "subst", "type": "HKY", "kappa": kappa, "frequencies": freqs}
        like = {
            "id": "like",
            "type": "TreeLikelihoodModel",
            "tree_model": {"id": "tree", "type": "UnRootedTreeModel", "newick": TOPOLOGIES[c["topology"]], "branch_lengths": blens, "taxa": "taxa"},
            "site_model": {"id": "sm", "type": "ConstantSiteModel"},
            "substitution_model": subst,
            "site_pattern": {"id": "patterns", "type": "SitePattern", "alignment": "alignment"},
        }
        prior_b = {"id": "pb", "type": "Distribution", "distribution": "torch.distributions.Exponential", "x": "tree.blens", "parameters": {"rate": tt.P("pb.rate", hyper["pb.rate"])}}
        return (
            [
                {"id": "taxa", "type": "Taxa", "taxa": [{"id": t, "type": "Taxon"} for t in TAXA]},
                {"id": "alignment", "type": "Alignment", "datatype": {"id": "dt", "type": "NucleotideDataType"}, "taxa": "taxa", "sequences": [{"taxon": t, "sequence": s} for t, s in zip(TAXA, c["seqs"])]},
                {"id": "joint", "type": "JointDistributionModel", "distributions": [like, prior_b] + dists + jac},
            ],
            ids,
        )
    ids = ["x%d" % i for i in range(len(sizes))]
    dists = []
    if c["target"] == "mvn":
        b = c["blocks"][0]
        x = [tt.P(i, v) for i, v in zip(ids, vals)]
        dists.append({"id": "d0", "type": "MultivariateNormal", "x": x if len(x) > 1 else x[0], "parameters": {"loc": tt.P("d0.loc", b["loc"]), "precision_matrix": tt.P("d0.prec", b["prec"])}})
    else:
        for i, (b, v) in enumerate(zip(c["blocks"], vals)):
            x = tt.P(ids[i], v)
            if b["kind"] == "normal":
                dists.append({"id": "d%d" % i, "type": "Distribution", "distribution": "torch.distributions.Normal", "x": x, "parameters": {"loc": tt.P("d%d.loc" % i, b["loc"]), "scale": tt.P("d%d.scale" % i, b["scale"])}})
            elif b["kind"] == "gamma_raw":
                dists.append({"id": "d%d" % i, "type": "Distribution", "distribution": "torch.distributions.Gamma", "x": x, "parameters": {"concentration": tt.P("d%d.conc" % i, b["conc"]), "rate": tt.P("d%d.rate" % i, b["rate"])}})
            elif b["kind"] == "gamma":
                z = {"id": "z%d" % i, "type": "TransformedParameter", "transform": "torch.distributions.ExpTransform", "x": x}
                dists.append({"id": "d%d" % i, "type": "Distribution", "distribution": "torch.distributions.Gamma", "x": z, "parameters": {"concentration": tt.P("d%d.conc" % i, b["conc"]), "rate": tt.P("d%d.rate" % i, b["rate"])}})
                dists.append("z%d" % i)  # log |dz/dx|
            else:
                dists.append({"id": "d%d" % i, "type": "MultivariateNormal", "x": x, "parameters": {"loc": tt.P("d%d.loc" % i, b["loc"]), "precision_matrix": tt.P("d%d.prec" % i, b["prec"])}})
    if c.get("offset"):
        # a constant term of the log joint (a Normal density of a fixed datum far in its tail): the position never
        # enters it, so trajectories are unchanged, but |log joint| becomes ~1e8-1e10 and anything obtained by
        # cancellation against the potential loses its digits (seed C16-12)
        dists.append({"id": "doff", "type": "Distribution", "distribution": "torch.distributions.Normal", "x": tt.P("doff.x", [float(c["offset"])]),
                      "parameters": {"loc": tt.P("doff.loc", [0.0]), "scale": tt.P("doff.scale", [1.0])}})
    return [{"id": "joint", "type": "JointDistributionModel", "distributions": dists}], ids


def offset_cases():
    toy = ("block", "block", "mvn")
    return st.tuples(cases(targets=toy, operator=True), st.sampled_from([2e4, 6e4, 1.5e5])).map(lambda t: dict(t[0], offset=t[1]))


class Built:
    def __init__(self, c):
        specs, ids = target_spec(c)
        self.dic = {}
        for s in specs:
            tt.build(s, self.dic)
        self.joint = self.dic["joint"]
        self.ids = ids
        self.params = [self.dic[i] for i in ids]
        self.sizes = list(c["sizes"])

    def set_q(self, q):
        s = 0
        for p, n in zip(self.params, self.sizes):
            p.tensor = torch.tensor(np.asarray(q[s : s + n], dtype=float).tolist(), dtype=torch.get_default_dtype())
            s += n

    def set_hyper(self, c):
        """assign the values of c to every parameter of the target other than the positions, through
        the public interface (Parameter.tensor = ...), leaving the positions untouched"""
        if c["target"] == "phylo":
            hyper = dict(PHYLO_HYPER)
            hyper.update(c.get("hyper", {}))
            for k in ["pb.rate"] + {"HKY_freqs": ["kappa"], "HKY_kappa": ["freqs"]}.get(c["model"], []):
                self.dic[k].tensor = tt.T(hyper[k])
            return
        for i, b in enumerate(c["blocks"]):
            for field, name in (("loc", "loc"), ("scale", "scale"), ("conc", "conc"), ("rate", "rate"), ("prec", "prec")):
                if field in b:
                    self.dic["d%d.%s" % (i, name)].tensor = tt.T(b[field])

    def get_q(self):
        """concatenation of the parameters as the caller of the integrator sees them; None if a shape is wrong"""
        out = []
        for p, n in zip(self.params, self.sizes):
            t = p.tensor
            if tuple(t.shape) != (n,):
                return None
            out.append(arr(t))
        return np.concatenate(out)

    def logp_grad(self, q):
        """target's own autograd gradient at q (used on a second instance only)"""
        leaves, s = [], 0
        for p, n in zip(self.params, self.sizes):
            t = torch.tensor(np.asarray(q[s : s + n], dtype=float).tolist(), dtype=torch.get_default_dtype(), requires_grad=True)
            p.tensor = t
            leaves.append(t)
            s += n
        v = self.joint()
        g = torch.autograd.grad(v.sum(), leaves, allow_unused=True)
        g = [torch.zeros_like(t) if gi is None else gi for gi, t in zip(g, leaves)]
        return float(v.sum().detach()), np.concatenate([arr(x) for x in g])


class Oracle:
    """logp / grad of the case's target, independent of the instance under test"""

    def __init__(self, c):
        self.c = c
        if c["target"] == "phylo":
            self._b = Built(c)
            self.logp = lambda q: self._fresh(q)[0]
            self.grad = lambda q: self._fresh(q)[1]
        else:
            t = lf.BlockTarget(c["blocks"])
            self.logp = t.logp
            if c.get("offset"):
                const = -0.5 * float(c["offset"]) ** 2 - 0.5 * math.log(2.0 * math.pi)
                self.logp = lambda q: t.logp(q) + const
            self.grad = t.grad
            self.gabs = t.gabs

    def _fresh(self, q):
        # a point where the density itself cannot be evaluated is outside the guarded region
        # (reported by the properties about the density), never a C16 failure
        if not np.all(np.isfinite(q)):
            return float("nan"), np.full(len(q), np.nan)
        try:
            return self._b.logp_grad(q)
        except Exception:  # noqa
            return float("nan"), np.full(len(q), np.nan)

    def representable(self, traj):
        """gamma blocks are written as z = exp(x): outside |x| <= 500 z under/overflows and the density
        of the specification (not the integrator) stops being the smooth function the property is about"""
        c = self.c
        if c["target"] == "phylo":
            # log branch lengths in [-12, 3] (4e-6 .. 20 substitutions per site), log kappa / stick-breaking
            # coordinates within 4: beyond, exp(lambda t) of the rate matrix mixes magnitudes and the density's
            # own gradient loses digits (two evaluations at inputs 1 ulp apart differ by 1e-10 relative)
            for q, _ in traj:
                if float(np.min(q[:5])) < -12.0 or float(np.max(q[:5])) > 3.0 or (len(q) > 5 and float(np.max(np.abs(q[5:]))) > 4.0):
                    return False
            return True
        s = 0
        for b, n in zip(c["blocks"], [b["n"] for b in c["blocks"]]):
            if b["kind"] == "gamma":
                for q, _ in traj:
                    if float(np.max(np.abs(q[s : s + n]))) > 500.0:
                        return False
            s += n
        return True

    def margin(self, traj):
        """distance of the trajectory from the locus where HKY's rate matrix has a repeated eigenvalue
        (kappa = 1, or pi_A + pi_G = 1/2): there the eigendecomposition-based gradient is 0/0 (DESIGN 8 #21),
        near it it loses digits; inf for targets without such a locus"""
        c = self.c
        if c["target"] != "phylo" or c["model"] == "JC69":
            return float("inf")
        m = float("inf")
        for q, _ in traj:
            if c["model"] == "HKY_kappa":
                m = min(m, abs(float(q[5])) / 5.0)  # |pi_R - pi_Y| is small for the fixed frequencies: 5e-2 on log kappa
            else:
                x = np.asarray(q[5:8], dtype=float)
                z = 1.0 / (1.0 + np.exp(-(x - np.log(np.array([3.0, 2.0, 1.0])))))
                rem = np.concatenate([[1.0], np.cumprod(1.0 - z)])
                pi = np.concatenate([z, [1.0]]) * rem
                m = min(m, abs(float(pi[0] + pi[2] - 0.5)))
        return m


def updated(c):
    """the case with the second set of values for the other parameters of the target"""
    c2 = dict(c)
    if c["target"] == "phylo":
        c2["hyper"] = c["hyper2"]
    else:
        c2["blocks"] = c["blocks2"]
    return c2


def mass_np(c):
    return np.asarray(c["mass"]["M"], dtype=float)


def build_integrator(eps, L, dic=None, id_="lf"):
    obj, _ = tt.build({"id": id_, "type": "LeapfrogIntegrator", "steps": int(L), "step_size": float(eps)}, dic)
    return obj


def is_mixed(c):
    return c.get("precision") == "mass32"


def minv_tensor(c, minv):
    """inverse mass matrix as the operator would hold it: in the precision of the mass matrix"""
    return tt.T(np.asarray(minv).tolist(), dtype=torch.float32 if is_mixed(c) else None)


def run_impl(b, integ, q, p, minv_t):
    """integrator as its caller uses it: positions are read from / written to the parameters; the momentum
    comes in the precision of the mass matrix (Hamiltonian.sample_momentum)"""
    b.set_q(q)
    p1 = integ(b.joint, b.params, torch.tensor(np.asarray(p, dtype=float).tolist(), dtype=minv_t.dtype), minv_t)
    q1 = b.get_q()
    return q1, arr(p1)


def _base(c, sub):
    d = sum(c["sizes"])
    blocks = tuple(b["kind"] for b in c.get("blocks", [])) if c["target"] != "phylo" else (c["model"],)
    tags = pretags(c)
    key = (sub, c)  # the whole generated case: two cases are the same only if every drawn number is
    labels = ["target=" + c["target"], "mass=" + c["mass"]["kind"], "npar=%d" % len(c["sizes"]), "dim=%d" % d, "L<=5" if c["L"] <= 5 else ("L<=15" if c["L"] <= 15 else "L>15"), "eps<0.01" if c["eps"] < 0.01 else ("eps<0.1" if c["eps"] < 0.1 else "eps>=0.1")]
    labels += ["block=" + k for k in sorted(set(blocks))]
    return Res(nontrivial=False, key=key, labels=tuple(labels), tags=tags)


def pretags(c):
    # one bucket per (sub-check, target family, kind of failure); mass matrix kind and number of parameters
    # are tags (known-finding predicates can use them) but do not multiply the buckets
    return {"target": c["target"], "mass": c["mass"]["kind"], "npar": len(c["sizes"]), "cls": c["target"], "bucket": c["target"]}


def _lab(res, *labs):
    res.labels = tuple(res.labels) + tuple(labs)


def _tol_arrays(ref, S):
    n = len(ref["q"])
    ref["tol_q"] = np.full(n, 1e-10 * S)
    ref["tol_p"] = np.full(n, 1e-10 * S)


def excess(ref, q1, p1, factor=1.0, q_ref=None, p_ref=None, extra=None):
    """max over components of |difference| / tolerance (<= 1 passes); inf on odd shapes / non-finite"""
    qr = ref["q"] if q_ref is None else q_ref
    pr = ref["p"] if p_ref is None else p_ref
    q1, p1 = arr(q1), arr(p1)
    if q1.shape != qr.shape or p1.shape != pr.shape or not (np.all(np.isfinite(q1)) and np.all(np.isfinite(p1))):
        return float("inf")
    tq, tp = ref["tol_q"] * factor, ref["tol_p"] * factor
    if extra is not None:
        tq, tp = tq + extra["tol_q"] * factor, tp + extra["tol_p"] * factor
    return float(max(np.max(np.abs(q1 - qr) / tq), np.max(np.abs(p1 - pr) / tp)))


def _reference_wide(c, orc, q0, p0, eps, L, minv):
    """scale-free variant: tolerances are WIDE_FACT times the component-wise effect of relative perturbations
    of size ETA (1e-9; positions ETA_Q = 1e-11) in every operation, i.e. agreement up to the effect of relative
    errors of 1e-11 per operation (1e-13 in the stored positions) - about 1e5 (1e3) units of round-off -
    including the conditioning of the mass matrix and of positions far from the origin"""
    M = mass_np(c)
    ref = lf.leapfrog(q0, p0, eps, L, minv, orc.grad)
    if not ref["finite"]:
        return ref, float("inf"), "guard:unstable"
    if not orc.representable(ref["traj"]):
        return ref, float("inf"), "guard:outside_float_range"
    Lc = np.diag(np.sqrt(M)) if M.ndim == 1 else np.linalg.cholesky(M)
    wp = [np.linalg.solve(Lc, pk) for _, pk in ref["traj"]]
    speed0 = max(1.0, float(np.max(np.abs(wp[0]))), float(np.max(np.abs(np.linalg.solve(Lc, eps * np.asarray(orc.grad(np.asarray(q0, dtype=float))))))))
    speed = max(float(np.max(np.abs(w))) for w in wp)
    if not speed <= 1e3 * speed0:
        return ref, float("inf"), "guard:unstable"
    out = lf.probe_rel(q0, p0, eps, L, M, orc.grad, ref, eta=ETA, eta_q=ETA_Q, gabs=orc.gabs)
    if out is None or not orc.representable(out[2]["traj"]):
        return ref, float("inf"), "guard:unstable"
    dq, dp, pert = out
    ref["pert"] = pert
    # linear regime: in whitened coordinates the probe moves the trajectory by less than 1e-4 of its speed
    lin = 0.0
    for (qa, pa), (qb, pb) in zip(ref["traj"], pert["traj"]):
        lin = max(lin, float(np.max(np.abs(np.linalg.solve(Lc, pa - pb)))), float(np.max(np.abs(Lc.T @ (qa - qb)))))
    amp = lin / (ETA * max(1.0, speed))
    if not amp <= 1e5:
        return ref, amp, "guard:unstable"
    qmax = np.max(np.abs(np.array([qk for qk, _ in ref["traj"]])), axis=0)
    pmax = np.max(np.abs(np.array([pk for _, pk in ref["traj"]])), axis=0)
    ref["tol_q"] = WIDE_FACT * dq + 1e-14 * qmax + 1e-300
    ref["tol_p"] = WIDE_FACT * dp + 1e-14 * pmax + 1e-300
    ref["white"] = Lc
    return ref, amp, None


def _reference(c, orc, q0, p0, eps, L, minv):
    """reference trajectory, round-off amplification, and the reason (or None) why nothing may be asserted"""
    if c.get("wide"):
        return _reference_wide(c, orc, q0, p0, eps, L, minv)
    ref = lf.leapfrog(q0, p0, eps, L, minv, orc.grad)
    if not ref["finite"]:
        return ref, float("inf"), "guard:unstable"
    if not orc.representable(ref["traj"]):
        return ref, float("inf"), "guard:outside_float_range"
    if not orc.margin(ref["traj"]) >= 1e-2:
        return ref, float("inf"), "guard:degenerate_eigenvalues"
    if not ref["scale"] <= SCALE_MAX:
        return ref, float("inf"), "guard:unstable"
    amp, pert = lf.probe(q0, p0, eps, L, minv, orc.grad, base=ref, eta=ETA)
    ref["pert"] = pert
    if not amp <= AMP_MAX:
        return ref, amp, "guard:unstable"
    _tol_arrays(ref, ref["scale"])
    return ref, amp, None


# ----------------------------------------------------------------------------- (a) + (b)
def body_trajectory(c, which):
    res = _base(c, which)
    orc = Oracle(c)
    M = mass_np(c)
    minv = lf.invert_mass(M)
    minv_t = minv_tensor(c, minv)
    q0 = np.asarray(c["q0"], dtype=float)
    p0 = np.asarray(c["p0"], dtype=float)
    eps, L = c["eps"], c["L"]
    ref, amp, why = _reference(c, orc, q0, p0, eps, L, minv)
    if why:
        _lab(res, why)
        return res
    S = ref["scale"]
    if which == "reversal":
        # the way back retraces the trajectory; its own probe must pass as well
        back, amp2, why = _reference(c, orc, ref["q"], -ref["p"], eps, L, minv)
        if why:
            _lab(res, why)
            return res
        S = max(S, back["scale"])
    b = Built(c)
    integ = build_integrator(eps, L)
    if is_mixed(c) and minv.ndim == 2:
        # float32 matrix @ float64 momentum: the unchanged code raises a dtype error here; counted, not asserted
        out, exc = guarded(run_impl, b, integ, q0, p0, minv_t)
        if exc is not None:
            _lab(res, "mixed_dense_raises:" + type(exc).__name__)
            return res
        q1, p1 = out
    else:
        q1, p1 = run_impl(b, integ, q0, p0, minv_t)
    if is_mixed(c):
        _lab(res, "precision=mass32")
    if q1 is None:
        return res.fail("shape", {"shapes": [list(p.tensor.shape) for p in b.params], "sizes": c["sizes"]})
    moved = float(np.max(np.abs(ref["q"] - q0))) > 1e-6 and S <= 1e3
    if c.get("wide"):
        moved = float(np.max(np.abs(ref["white"].T @ (ref["q"] - q0)))) > 1e-9
        _lab(res, "cond>=1e6" if np.linalg.cond(np.diag(M) if M.ndim == 1 else M) >= 1e6 else "cond<1e6", "massmax>1e3" if float(np.max(np.abs(M))) > 1e3 else "massmax<=1e3")
        res.nontrivial = moved
        if which == "differential":
            ex = excess(ref, q1, p1)
            if not ex <= 1.0:
                return res.fail("mismatch", {"excess": ex, "amp": amp, "q": q1.tolist(), "p": p1.tolist(), "q_ref": ref["q"].tolist(), "p_ref": ref["p"].tolist(), "tol_q": ref["tol_q"].tolist(), "tol_p": ref["tol_p"].tolist()})
            return res
        p2 = integ(b.joint, b.params, torch.tensor((-p1).tolist()), minv_t)
        q2 = b.get_q()
        if q2 is None:
            return res.fail("shape", {"shapes": [list(p.tensor.shape) for p in b.params], "sizes": c["sizes"]})
        ex = excess(ref, q2, arr(p2), factor=10.0, q_ref=q0, p_ref=-p0, extra=back)
        if not ex <= 1.0:
            return res.fail("irreversible", {"excess": ex, "amp": amp, "q_back": q2.tolist(), "p_back": arr(p2).tolist()})
        return res
    if which == "differential":
        err = max(maxabs(q1, ref["q"]), maxabs(p1, ref["p"]))
        res.nontrivial = moved
        if not err <= 1e-10 * S:
            return res.fail("mismatch", {"err": err, "scale": S, "amp": amp, "q": q1.tolist(), "p": p1.tolist(), "q_ref": ref["q"].tolist(), "p_ref": ref["p"].tolist()})
        return res
    # reversal: continue from the state the integrator left in the parameters
    p2 = integ(b.joint, b.params, torch.tensor((-p1).tolist()), minv_t)
    q2 = b.get_q()
    if q2 is None:
        return res.fail("shape", {"shapes": [list(p.tensor.shape) for p in b.params], "sizes": c["sizes"]})
    err = max(maxabs(q2, q0), maxabs(arr(p2), -p0))
    res.nontrivial = moved
    if not err <= 1e-9 * L * S:
        return res.fail("irreversible", {"err": err, "scale": S, "amp": amp, "q_back": q2.tolist(), "p_back": arr(p2).tolist()})
    return res


def body_differential(c):
    return body_trajectory(c, "differential")


def body_reversal(c):
    return body_trajectory(c, "reversal")


# ----------------------------------------------------------------------------- (a)+(b) on one integrator instance
def body_sequence(c):
    """Metropolis-within-Gibbs use of ONE integrator instance: a trajectory is kept (accepted), other parameters
    of the target are changed through the public interface, the next trajectory starts from the position the
    parameters hold. Every trajectory must be the leapfrog trajectory of the CURRENT target, and reversible."""
    res = _base(c, "sequence")
    M = mass_np(c)
    minv = lf.invert_mass(M)
    minv_t = tt.T(minv.tolist())
    eps, L = c["eps"], c["L"]
    q0 = np.asarray(c["q0"], dtype=float)
    moms = [np.asarray(c["p0"], dtype=float), np.asarray(c["p1"], dtype=float), -np.asarray(c["p0"], dtype=float)]
    cA, cB = c, updated(c)
    b = Built(cA)
    integ = build_integrator(eps, L)
    b.set_q(q0)
    q_cur, cur = q0, cA
    for leg in range(3):
        if leg == 1 + c["update_at"]:
            b.set_hyper(cB)  # positions untouched
            cur = cB
            changed = maxabs(Oracle(cA).grad(q_cur), Oracle(cB).grad(q_cur)) > 1e-6
        orc = Oracle(cur)
        p = moms[leg]
        ref, amp, why = _reference(cur, orc, q_cur, p, eps, L, minv)
        if why:
            _lab(res, why)
            return res
        S = ref["scale"]
        if leg == 1 + c["update_at"]:
            back, amp2, why = _reference(cur, orc, ref["q"], -ref["p"], eps, L, minv)
            if why:
                _lab(res, why)
                return res
            S = max(S, back["scale"])
        # the integrator is applied to the parameters as the previous trajectory left them
        p1 = arr(integ(b.joint, b.params, torch.tensor(p.tolist()), minv_t))
        q1 = b.get_q()
        if q1 is None:
            return res.fail("shape", {"sizes": c["sizes"], "leg": leg})
        err = max(maxabs(q1, ref["q"]), maxabs(p1, ref["p"]))
        if not err <= 1e-10 * S:
            res.fail("mismatch", {"leg": leg, "updated": cur is cB, "err": err, "scale": S, "q": q1.tolist(), "q_ref": ref["q"].tolist(), "p": p1.tolist(), "p_ref": ref["p"].tolist()})
        if leg == 1 + c["update_at"]:
            # reversal of the first trajectory under the changed target; the chain then continues from
            # the point it came back to
            p2 = arr(integ(b.joint, b.params, torch.tensor((-p1).tolist()), minv_t))
            q2 = b.get_q()
            if q2 is None:
                return res.fail("shape", {"sizes": c["sizes"], "leg": leg})
            err = max(maxabs(q2, q_cur), maxabs(p2, -p))
            if not err <= 1e-9 * L * S:
                res.fail("irreversible", {"leg": leg, "err": err, "scale": S})
            q1 = q2
        if res.fails:
            return res
        q_cur = q1
    res.nontrivial = bool(changed) and float(np.max(np.abs(q_cur - q0))) > 1e-6
    _lab(res, "update_before_leg=%d" % (1 + c["update_at"]))
    return res


# ----------------------------------------------------------------------------- re-tuning between trajectories
def adaptor_spec(kind):
    if kind == "adaptive":
        return {"id": "ssa", "type": "AdaptiveStepSize", "integrator": "lf", "target_acceptance_probability": 0.8}
    return {"id": "ssa", "type": "DualAveragingStepSize", "integrator": "lf"}


def apply_event(e, integ, adaptor, leg, accepted=True):
    """change the integrator through one of its public routes; returns the label of the route"""
    k = e["kind"]
    if k == "assign_eps":
        integ.step_size = float(e["eps"])
    elif k == "assign_steps":
        integ.steps = int(e["L"])
    elif k == "assign_both":
        integ.step_size = float(e["eps"])
        integ.steps = int(e["L"])
    elif k == "load_state":
        sd = dict(integ.state_dict())
        sd["step_size"] = float(e["eps"])
        sd["steps"] = int(e["L"])
        integ.load_state_dict(sd)
    elif k == "adaptor" and adaptor is not None:
        adaptor.learn(torch.tensor(float(e["prob"])), leg + 1, accepted)
        return "adaptor:" + type(adaptor).__name__
    return k


def body_retune(c):
    """ONE integrator instance, three trajectories; between them the step size / number of steps are reassigned
    through the public routes (attribute assignment, load_state_dict, a step-size adaptor's learn()) or another
    inverse mass matrix is passed. Each trajectory must be the leapfrog trajectory for the values in force when it
    is run (read back from the public attributes), and reversible."""
    res = _base(c, "retune")
    orc = Oracle(c)
    M = mass_np(c)
    q0 = np.asarray(c["q0"], dtype=float)
    moms = [np.asarray(c["p0"], dtype=float), -np.asarray(c["p0"], dtype=float)[::-1].copy(), 0.5 * np.asarray(c["p0"], dtype=float)]
    b = Built(c)
    integ = build_integrator(c["eps"], c["L"], b.dic, "lf")
    adaptor, _ = tt.build(adaptor_spec(c["adaptor"]), b.dic)
    b.set_q(q0)
    q_cur = q0
    routes = []
    for leg in range(3):
        if leg > 0:
            e = c["events"][leg - 1]
            routes.append(apply_event(e, integ, adaptor, leg))
            if e["kind"] == "mass":
                M = np.asarray(e["M"], dtype=float)
        eps, L = float(integ.step_size), int(integ.steps)
        if leg > 0 and e["kind"] in ("assign_eps", "assign_both", "load_state") and eps != float(e["eps"]):
            return res.fail("attribute", {"step_size": eps, "assigned": e["eps"]})
        if not (1e-6 <= eps <= 10.0 and 1 <= L <= 200):
            _lab(res, "guard:unstable")
            return res
        minv = lf.invert_mass(M)
        minv_t = tt.T(minv.tolist())
        p = moms[leg]
        ref, amp, why = _reference(c, orc, q_cur, p, eps, L, minv)
        if why:
            _lab(res, why)
            return res
        back, amp2, why = _reference(c, orc, ref["q"], -ref["p"], eps, L, minv)
        if why:
            _lab(res, why)
            return res
        S = max(ref["scale"], back["scale"])
        p1 = arr(integ(b.joint, b.params, torch.tensor(p.tolist()), minv_t))
        q1 = b.get_q()
        if q1 is None:
            return res.fail("shape", {"sizes": c["sizes"], "leg": leg})
        tag = routes[-1] if routes else "fresh"
        err = max(maxabs(q1, ref["q"]), maxabs(p1, ref["p"]))
        if not err <= 1e-10 * S:
            res.fail("mismatch", {"leg": leg, "route": tag, "err": err, "scale": S, "step_size": eps, "steps": L, "q": q1.tolist(), "q_ref": ref["q"].tolist(), "p": p1.tolist(), "p_ref": ref["p"].tolist()})
        p2 = arr(integ(b.joint, b.params, torch.tensor((-p1).tolist()), minv_t))
        q2 = b.get_q()
        if q2 is None:
            return res.fail("shape", {"sizes": c["sizes"], "leg": leg})
        err = max(maxabs(q2, q_cur), maxabs(p2, -p))
        if not err <= 1e-9 * L * S:
            res.fail("irreversible", {"leg": leg, "route": tag, "err": err, "scale": S, "step_size": eps, "steps": L})
        if res.fails:
            return res
        # go forward once more so that the chain moves on (the return trip ended where the leg started)
        integ(b.joint, b.params, torch.tensor(p.tolist()), minv_t)
        q_cur = b.get_q()
        if q_cur is None:
            return res.fail("shape", {"sizes": c["sizes"], "leg": leg})
    res.nontrivial = float(np.max(np.abs(q_cur - q0))) > 1e-6
    for r in routes:
        _lab(res, "route=" + r)
    return res


# ----------------------------------------------------------------------------- (c)
class _FDAbort(Exception):
    pass


def body_volume(c):
    res = _base(c, "volume")
    orc = Oracle(c)
    M = mass_np(c)
    minv = lf.invert_mass(M)
    minv_t = tt.T(minv.tolist())
    q0 = np.asarray(c["q0"], dtype=float)
    p0 = np.asarray(c["p0"], dtype=float)
    eps, L = c["eps"], c["L"]
    d = q0.size
    ref, amp, why = _reference(c, orc, q0, p0, eps, L, minv)
    if why:
        _lab(res, why)
        return res
    if not amp * ref["scale"] * FD_H * max(1.0, float(np.max(np.abs(q0))), float(np.max(np.abs(p0)))) <= 0.1:
        # a finite-difference displacement must stay a small perturbation of the whole trajectory
        _lab(res, "guard:fd_inaccurate")
        return res
    b = Built(c)
    integ = build_integrator(eps, L)
    z0 = np.concatenate([q0, p0])
    base = run_impl(b, integ, q0, p0, minv_t)  # at the case's own point a raise is a failure
    if base[0] is None:
        return res.fail("shape", {"sizes": c["sizes"]})

    def F(z):
        (out, exc) = guarded(run_impl, b, integ, z[:d], z[d:], minv_t)
        if exc is not None:
            raise _FDAbort()
        q1, p1 = out
        if q1 is None:
            return None
        return np.concatenate([q1, p1])

    def jac(hrel):
        J = np.zeros((2 * d, 2 * d))
        for i in range(2 * d):
            h = hrel * max(1.0, abs(z0[i]))
            e = np.zeros(2 * d)
            e[i] = h
            a, bb = F(z0 + e), F(z0 - e)
            if a is None or bb is None:
                return None
            J[:, i] = (a - bb) / (2 * h)
        return J

    try:
        J1 = jac(FD_H)
        J2 = jac(FD_H / 2)
    except _FDAbort:
        _lab(res, "guard:fd_inaccurate")
        return res
    if J1 is None or J2 is None:
        return res.fail("shape", {"sizes": c["sizes"]})
    if not (np.all(np.isfinite(J1)) and np.all(np.isfinite(J2))):
        return res.fail("nonfinite", {"amp": amp})
    JR = (4.0 * J2 - J1) / 3.0
    errJ = float(np.max(np.abs(JR - J2)))
    try:
        inv = np.linalg.inv(JR)
    except np.linalg.LinAlgError:
        return res.fail("singular", {"amp": amp})
    bound = float(np.sum(np.abs(inv))) * errJ  # first-order bound on |d det / det|
    if not bound < 1e-7:
        _lab(res, "guard:fd_inaccurate")
        return res
    sign, logdet = np.linalg.slogdet(JR)
    det = float(sign * math.exp(logdet))
    res.nontrivial = float(np.max(np.abs(ref["q"] - q0))) > 1e-6
    if not abs(det - 1.0) <= 1e-6:
        return res.fail("volume", {"det": det, "fd_bound": bound, "amp": amp})
    # symplecticity is not claimed by the property; only the determinant is asserted
    return res


# ----------------------------------------------------------------------------- (d)
def build_hamiltonian(b):
    obj, _ = tt.build({"id": "ham", "type": "Hamiltonian", "joint": "joint"}, b.dic)
    return obj


def body_energy(c):
    res = _base(c, "energy")
    orc = Oracle(c)
    M = mass_np(c)
    minv = lf.invert_mass(M)
    minv_t = minv_tensor(c, minv)
    if is_mixed(c) and minv.ndim == 2:
        _lab(res, "mixed_dense_not_run")
        return res
    q0 = np.asarray(c["q0"], dtype=float)
    p0 = np.asarray(c["p0"], dtype=float)
    eps, L = c["eps"], c["L"]
    levels = [(eps, L), (eps / 2, 2 * L), (eps / 4, 4 * L)]
    H0r = -orc.logp(q0) + lf.kinetic(p0, minv)
    if not math.isfinite(H0r):
        _lab(res, "guard:unstable")
        return res
    refs, S = [], 1.0
    for e_, L_ in levels:
        ref, amp, why = _reference(c, orc, q0, p0, e_, L_, minv)
        if why:
            _lab(res, why)
            return res
        S = max(S, ref["scale"])
        refs.append(ref)
    eref = [(-orc.logp(r["q"]) + lf.kinetic(r["p"], minv)) - H0r for r in refs]
    # how much the final energy moves under the probe's 1e-9 perturbations: rounding (1e-15..1e-14 relative)
    # moves it 1e5..1e6 times less
    hprobe = [abs((-orc.logp(r["pert"]["q"]) + lf.kinetic(r["pert"]["p"], minv)) - H0r - e) for r, e in zip(refs, eref)]
    b = Built(c)
    ham = build_hamiltonian(b)
    Hscale = max(1.0, abs(H0r))

    def H_impl(q, p):
        # energy of the state held by the parameters, from the two methods HMCOperator._step uses
        pt = torch.tensor(np.asarray(p, dtype=float).tolist())
        with torch.no_grad():
            return float(ham.potential_energy()) + float(ham.kinetic_energy(pt, minv_t))

    b.set_q(q0)
    H0 = H_impl(q0, p0)
    if not abs(H0 - H0r) <= 1e-10 * Hscale:
        return res.fail("hamiltonian", {"H": H0, "H_ref": H0r})
    eimp = []
    for (e_, L_), r in zip(levels, refs):
        integ = build_integrator(e_, L_)
        q1, p1 = run_impl(b, integ, q0, p0, minv_t)
        if q1 is None:
            return res.fail("shape", {"sizes": c["sizes"]})
        H1 = H_impl(q1, p1)
        H1r = -orc.logp(q1) + lf.kinetic(p1, minv)
        if not abs(H1 - H1r) <= 1e-10 * max(Hscale, abs(H1r)):
            return res.fail("hamiltonian", {"H": H1, "H_ref": H1r, "eps": e_, "L": L_})
        eimp.append(H1 - H0)
    floor = 1e-9 * Hscale
    asserted = 0
    for i in (0, 1):
        coarse, fine = eref[i], eref[i + 1]
        if not (abs(fine) >= floor and abs(fine) >= 1e-3 * max(hprobe[i], hprobe[i + 1])):
            _lab(res, "energy:below_floor")
            continue
        rr = coarse / fine
        if not (3.6 <= rr <= 4.4):
            _lab(res, "energy:not_asymptotic")
            continue
        asserted += 1
        if eimp[i + 1] == 0.0:
            return res.fail("energy_order", {"level": i, "err_coarse": eimp[i], "err_fine": eimp[i + 1], "ref_ratio": rr})
        ri = abs(eimp[i]) / abs(eimp[i + 1])
        if not (3.0 <= ri <= 5.0):
            return res.fail("energy_order", {"level": i, "ratio": ri, "ref_ratio": rr, "err_coarse": eimp[i], "err_fine": eimp[i + 1], "ref_err": [coarse, fine]})
    res.nontrivial = asserted > 0
    if asserted:
        _lab(res, "energy:asserted")
    return res


# ----------------------------------------------------------------------------- (e)
@contextlib.contextmanager
def recording(rec):
    """record the momentum drawn and the momentum returned by the integrator, by wrapping
    (class attributes replaced for the duration of one step, then restored)"""
    from torchtree.inference.hmc.hamiltonian import Hamiltonian
    from torchtree.inference.hmc.integrator import LeapfrogIntegrator

    o_sample = Hamiltonian.sample_momentum
    o_call = LeapfrogIntegrator.__call__

    def sample(self, mass_matrix):
        out = o_sample(self, mass_matrix)
        rec.append(("p0", out.detach().clone()))
        return out

    def call(self, *a, **k):
        out = o_call(self, *a, **k)
        rec.append(("p1", out.detach().clone()))
        return out

    Hamiltonian.sample_momentum = sample
    LeapfrogIntegrator.__call__ = call
    try:
        yield
    finally:
        Hamiltonian.sample_momentum = o_sample
        LeapfrogIntegrator.__call__ = o_call


def _attempts(rec):
    """[(p0, p1 or None), ...]: one entry per momentum draw, with the momentum the integrator returned
    for it when the integration got that far"""
    out = []
    for k, x in rec:
        if k == "p0":
            out.append([arr(x), None])
        elif out:
            out[-1][1] = arr(x)
    return out


def body_operator(c):
    res = _base(c, "operator")
    orc = Oracle(c)
    M = mass_np(c)
    minv = lf.invert_mass(M)
    eps, L = c["eps"], c["L"]
    d = sum(c["sizes"])
    b = Built(c)
    integ = build_integrator(eps, L, b.dic, "lf")
    route = c.get("mass_route", "spec")
    mixed = is_mixed(c)
    if mixed and M.ndim == 2:
        _lab(res, "mixed_dense_not_run")  # dtype error on the unchanged code (see 'mixed_differential')
        return res
    # single-precision mass matrix: K(p0) is evaluated by the library in single precision (p0 is float32)
    htol = 2e-6 if mixed else 1e-10
    if route == "spec":
        mass = tt.P("op.mass", c["mass"]["M"])
    else:
        # what the CLI writes; the case's matrix is assigned afterwards, the way MassMatrixAdaptor does
        mass = {"id": "op.mass", "type": "Parameter", ("ones" if M.ndim == 1 else "eye"): d}
    if mixed:
        mass["dtype"] = "torch.float32"
        _lab(res, "precision=mass32")
    spec = {"id": "op", "type": "HMCOperator", "joint": "joint", "parameters": list(b.ids) if len(b.ids) > 1 else b.ids[0], "integrator": "lf", "mass_matrix": mass, "weight": 1.0}
    adaptor = None
    if c.get("adaptor", "none") != "none":
        spec["adaptors"] = [adaptor_spec(c["adaptor"])]
    if c.get("find_reasonable"):
        spec["find_reasonable_step_size"] = True  # runs in the constructor with momenta of its own
    torch.manual_seed(c["torch_seed"])
    op, exc = guarded(tt.build, spec, b.dic)
    if exc is not None:
        if c.get("find_reasonable"):
            # the search doubles the step size until the acceptance collapses; on the way the target may
            # become non-finite: outside what the property speaks about
            _lab(res, "find_reasonable_raised:" + type(exc).__name__)
            return res
        raise exc
    op = op[0]
    if "ssa" in b.dic:
        adaptor = b.dic["ssa"]
    if route != "spec":
        b.dic["op.mass"].tensor = tt.T(M.tolist(), dtype=torch.float32 if mixed else None)
    _lab(res, "mass_route=" + route)
    q_cur = np.asarray(c["q0"], dtype=float)
    if c.get("find_reasonable"):
        # the search leaves the parameters where its last trial trajectory ended, and the step size it found
        q_cur = b.get_q()
        if q_cur is None or not np.all(np.isfinite(q_cur)):
            _lab(res, "guard:unstable")
            return res
        eps = float(integ.step_size)
        _lab(res, "route=find_reasonable_step_size")
        if not 1e-6 <= eps <= 10.0:
            _lab(res, "guard:unstable")
            return res
    lp_cur = orc.logp(q_cur)
    if not math.isfinite(lp_cur):
        _lab(res, "guard:unstable")
        return res
    nsteps = 0
    cur = c
    for idx, decision in enumerate(list(c["decisions"]) + ["end"]):
        with torch.no_grad():
            lp0 = float(b.joint())  # what MCMC.run holds as the current log density
        if not abs(lp0 - lp_cur) <= 1e-10 * max(1.0, abs(lp_cur)):
            return res.fail("stale_density", {"joint": lp0, "expected": lp_cur, "step": nsteps})
        rec = []
        with recording(rec):
            h, exc = guarded(op.step)
        nsteps += 1
        att = _attempts(rec)
        if exc is not None:
            # the momentum is drawn inside step(): whether this trajectory is one the property speaks about is
            # only known afterwards. A raise is a failure unless the exact trajectory for the momentum that was
            # being integrated leaves the guarded region (divergence: overflow, non-finite rate matrix, ...)
            if att and att[-1][0].shape == (d,) and _reference(cur, orc, q_cur, att[-1][0], eps, L, minv)[2] is not None:
                _lab(res, "raised_outside_guard:" + type(exc).__name__)
                return res
            raise exc
        if not att:
            raise RuntimeError("harness: no momentum draw recorded (HMCOperator no longer calls Hamiltonian.sample_momentum?)")
        for p0, _ in att:
            if p0.shape != (d,) or not np.all(np.isfinite(p0)):
                return res.fail("momentum_shape", {"shape": list(p0.shape), "dim": d})
        hv = float(h)
        # abandoned attempts (numerical failure, new momentum drawn): legitimate only where the exact
        # trajectory for that momentum is itself outside the guarded region
        for p0, _ in att[:-1]:
            _, _, why = _reference(cur, orc, q_cur, p0, eps, L, minv)
            if why is None:
                return res.fail("retries", {"draws": len(att), "abandoned_momentum": p0.tolist()})
        if len(att) > 1:
            _lab(res, "retried")
        p0, p1 = att[-1]
        ref, amp, why = _reference(cur, orc, q_cur, p0, eps, L, minv)
        if hv == float("inf"):
            # K0 - K1 cannot be +inf: this is the operator's signal that every attempt failed numerically;
            # MCMC.run accepts on +inf, so the position must be exactly the one before the step
            if why is None:
                return res.fail("retries", {"draws": len(att), "returned": hv, "abandoned_momentum": p0.tolist()})
            qb = b.get_q()
            if qb is None or not np.array_equal(qb, q_cur):
                return res.fail("restore_after_failure", {"q": None if qb is None else qb.tolist(), "expected": q_cur.tolist()})
            if any(p.requires_grad for p in b.params):
                return res.fail("requires_grad", {"flags": [bool(p.requires_grad) for p in b.params]})
            _lab(res, "all_attempts_failed")
            res.nontrivial = True
            return res
        if why:
            # outside the guarded region nothing is asserted about the numbers
            _lab(res, why)
            return res
        if p1 is None:
            return res.fail("retries", {"draws": len(att), "returned": hv})
        S = ref["scale"]
        q1 = b.get_q()
        if q1 is None:
            return res.fail("shape", {"shapes": [list(p.tensor.shape) for p in b.params], "sizes": c["sizes"]})
        err = max(maxabs(q1, ref["q"]), maxabs(p1, ref["p"]))
        ktol = 0.0
        if cur.get("wide"):
            # conditioning of K through the inverse mass matrix (torch.inverse vs the oracle's inverse)
            mp = lf.perturbed_inverse(M, ETA)
            ktol = WIDE_FACT * (abs(lf.kinetic(p0, mp) - lf.kinetic(p0, minv)) + abs(lf.kinetic(p1, mp) - lf.kinetic(p1, minv)))
            if not excess(ref, q1, p1) <= 1.0:
                return res.fail("proposal", {"excess": excess(ref, q1, p1), "amp": amp, "q": q1.tolist(), "q_ref": ref["q"].tolist(), "p": p1.tolist(), "p_ref": ref["p"].tolist(), "draws": len(att)})
        elif not err <= 1e-10 * S:
            return res.fail("proposal", {"err": err, "scale": S, "amp": amp, "q": q1.tolist(), "q_ref": ref["q"].tolist(), "p": p1.tolist(), "p_ref": ref["p"].tolist(), "draws": len(att)})
        K0, K1 = lf.kinetic(p0, minv), lf.kinetic(p1, minv)
        Ks = max(1.0, K0, K1)
        if not abs(hv - (K0 - K1)) <= htol * Ks + ktol:
            return res.fail("hastings", {"returned": hv, "K0-K1": K0 - K1, "K0": K0, "K1": K1})
        if any(p.requires_grad for p in b.params):
            return res.fail("requires_grad", {"flags": [bool(p.requires_grad) for p in b.params]})
        with torch.no_grad():
            lp1 = float(b.joint())  # the proposed log density as MCMC.run evaluates it
        lp1r = orc.logp(q1)
        if not abs(lp1 - lp1r) <= 1e-10 * max(1.0, abs(lp1r)):
            return res.fail("stale_density", {"joint": lp1, "expected": lp1r, "step": nsteps})
        dH = (-lp1r + K1) - (-lp_cur + K0)
        if not abs((lp1 - lp0 + hv) + dH) <= max(1e-9, htol) * max(1.0, abs(lp_cur), abs(lp1r), Ks) + ktol:
            return res.fail("acceptance", {"log_ratio": lp1 - lp0 + hv, "minus_dH": -dH})
        if cur.get("wide"):
            if float(np.max(np.abs(ref["white"].T @ (q1 - q_cur)))) > 1e-9:
                res.nontrivial = True
            _lab(res, "massmax>1e3" if float(np.max(np.abs(M))) > 1e3 else "massmax<=1e3")
        elif float(np.max(np.abs(q1 - q_cur))) > 1e-6 and S <= 1e3:
            res.nontrivial = True
        if decision == "accept":
            op.accept()
            q_cur, lp_cur = q1, lp1r
        elif decision == "reject":
            op.reject()
            qb = b.get_q()
            if qb is None or not np.array_equal(qb, q_cur):
                return res.fail("restore", {"q": None if qb is None else qb.tolist(), "expected": q_cur.tolist()})
        if "events" in c and decision != "end":
            # what MCMC.run does after accept/reject (operator.tune), or another public route
            e = c["events"][idx]
            k = e["kind"]
            if k == "tune":
                op.tune(torch.tensor(float(e["prob"])), idx + 1, decision == "accept")
                tag = "tune:" + c.get("adaptor", "none")
            elif k == "set_adaptable":
                op.set_adaptable_parameter(math.log(float(e["eps"])))
                tag = k
            elif k == "mass":
                b.dic["op.mass"].tensor = tt.T(e["M"])
                tag = k
            else:
                tag = apply_event(e, integ, adaptor, idx, decision == "accept")
            eps, L = float(integ.step_size), int(integ.steps)
            M = arr(b.dic["op.mass"].tensor)
            minv = lf.invert_mass(M)
            if k in ("assign_eps", "assign_both", "load_state", "set_adaptable") and not abs(eps - float(e["eps"])) <= 1e-12 * eps:
                return res.fail("attribute", {"step_size": eps, "assigned": e["eps"], "route": tag})
            _lab(res, "route=" + tag)
            if not (1e-6 <= eps <= 10.0 and 1 <= L <= 200):
                _lab(res, "guard:unstable")
                return res
        if c.get("update_at") == idx and decision != "end":
            # another operator of the chain changes the other parameters of the target; positions untouched
            cur = updated(c)
            b.set_hyper(cur)
            orc = Oracle(cur)
            lp_cur = orc.logp(q_cur)
            if not math.isfinite(lp_cur):
                _lab(res, "guard:unstable")
                return res
            _lab(res, "updated_after=" + decision)
    _lab(res, "history=" + ",".join(c["decisions"]))
    return res


# ----------------------------------------------------------------------------- (f) the value of the Hamiltonian model
@st.composite
def ham_cases(draw):
    c = draw(cases(targets=("block", "block", "mvn", "phylo"), max_L=1, phylo_max_L=1))
    d = sum(c["sizes"])
    queries = []
    repeat = draw(st.booleans())  # whether some query is made at the position of the previous one
    n = draw(st.sampled_from([2, 3, 4]))
    stay = draw(st.sampled_from(range(1, n))) if repeat else -1
    for i in range(n):
        q = {"move": i == 0 or (i != stay and (not repeat or draw(st.booleans()))), "kw": draw(st.sampled_from(["inverse_mass_matrix", "mass_matrix"]))}
        q["p"] = [draw(fl(-3.0, 3.0)) for _ in range(d)]
        q["dq"] = [draw(fl(0.05, 0.5)) for _ in range(d)] if q["move"] else None
        queries.append(q)
    c["queries"] = queries
    return c


def ham_pretags(c):
    t = pretags(c)
    t["query"] = "same_position" if any(not q["move"] for q in c["queries"]) else "new_position"
    return t


def body_hamiltonian(c):
    """Hamiltonian(...)(momentum=p, [inverse_]mass_matrix=...) = -log density(q) + p' M^-1 p / 2 for the
    position held by the parameters and the momentum passed, whatever was asked before"""
    res = _base(c, "hamiltonian")
    res.tags = ham_pretags(c)
    res.tags["bucket"] = "Hamiltonian.__call__"
    orc = Oracle(c)
    M = mass_np(c)
    minv = lf.invert_mass(M)
    b = Built(c)
    ham = build_hamiltonian(b)
    q = np.asarray(c["q0"], dtype=float)
    pos, qq = [], q
    for x in c["queries"]:
        if x["move"]:
            qq = qq + np.asarray(x["dq"], dtype=float)
        pos.append((qq, None))
    if not orc.margin(pos) >= 1e-2:
        _lab(res, "guard:degenerate_eigenvalues")
        return res
    for i, x in enumerate(c["queries"]):
        if x["move"]:
            q = q + np.asarray(x["dq"], dtype=float)
            b.set_q(q)
        p = np.asarray(x["p"], dtype=float)
        kw = {"momentum": torch.tensor(p.tolist())}
        if x["kw"] == "mass_matrix":
            kw["mass_matrix"] = tt.T(M.tolist())
        else:
            kw["inverse_mass_matrix"] = tt.T(minv.tolist())
        with torch.no_grad():
            H = float(ham(**kw))
        Hr = -orc.logp(q) + lf.kinetic(p, minv)
        if not math.isfinite(Hr):
            _lab(res, "guard:unstable")
            return res
        if not abs(H - Hr) <= 1e-9 * max(1.0, abs(Hr), lf.kinetic(p, minv)):
            return res.fail("hamiltonian_value", {"query": i, "H": H, "expected": Hr, "moved": x["move"], "kw": x["kw"]}, query="new_position" if x["move"] else "same_position")
    res.nontrivial = True
    _lab(res, "query=" + res.tags["query"])
    return res


# ----------------------------------------------------------------------------- self-test of the oracles
def selftest():
    """the closed-form targets equal the densities the specifications define (value and gradient),
    and the reference integrator has the properties it is used to check"""
    c = {
        "target": "block",
        "sizes": [2, 1, 3],
        "blocks": [
            {"kind": "gamma", "n": 2, "conc": [2.0, 0.7], "rate": [1.5, 0.4]},
            {"kind": "normal", "n": 1, "loc": [0.3], "scale": [1.7]},
            {"kind": "mvn", "n": 3, "loc": [0.1, -0.2, 0.3], "prec": [[2.0, 0.3, 0.0], [0.3, 1.0, -0.2], [0.0, -0.2, 0.5]]},
        ],
        "q0": [0.1, -0.3, 0.8, 0.5, 0.4, -1.0],
        "mass": {"kind": "identity", "M": [1.0] * 6},
        "eps": 0.1,
        "L": 3,
    }
    c2 = {"target": "mvn", "sizes": [1, 2], "blocks": [c["blocks"][2]], "q0": [0.5, 0.4, -1.0], "mass": {"kind": "identity", "M": [1.0] * 3}, "eps": 0.1, "L": 3}
    for cc in (c, c2):
        b = Built(cc)
        t = lf.BlockTarget(cc["blocks"])
        q = np.asarray(cc["q0"], dtype=float)
        v, g = b.logp_grad(q)
        if abs(v - t.logp(q)) > 1e-12 * max(1, abs(v)) or maxabs(g, t.grad(q)) > 1e-12:
            raise RuntimeError("closed-form target disagrees with the built one: %r %r %r %r" % (v, t.logp(q), g, t.grad(q)))
    # scipy literal for the gamma block: log pdf of z=exp(x) plus x
    from scipy import stats

    x = np.array([0.1, -0.3])
    lit = float(np.sum(stats.gamma.logpdf(np.exp(x), a=[2.0, 0.7], scale=1 / np.array([1.5, 0.4])) + x))
    if abs(lit - lf.Block(c["blocks"][0]).logp(x)) > 1e-12:
        raise RuntimeError("gamma block oracle")
    # harmonic oscillator: reference leapfrog against the closed-form one-step matrix power
    w2, eps, L = 2.3, 0.2, 7
    A = np.array([[1 - eps * eps * w2 / 2, eps], [-eps * w2 * (1 - eps * eps * w2 / 4), 1 - eps * eps * w2 / 2]])
    z = np.linalg.matrix_power(A, L) @ np.array([0.7, -0.4])
    r = lf.leapfrog([0.7], [-0.4], eps, L, np.array([1.0]), lambda q: -w2 * q)
    if abs(r["q"][0] - z[0]) > 1e-13 or abs(r["p"][0] - z[1]) > 1e-13:
        raise RuntimeError("reference leapfrog")


# ----------------------------------------------------------------------------- registration
def subchecks(tier):
    toy = ("block", "block", "mvn")
    ph = ("phylo",)
    q = tier == "quick"  # the two expensive sub-checks use shorter trajectories in the quick tier
    return [
        Sub("differential", body_differential, strategy=lambda: cases(targets=toy), quick=400, thorough=20000, pretags=pretags),
        Sub("differential_phylo", body_differential, strategy=lambda: cases(targets=ph, phylo_max_L=30), quick=32, thorough=800, pretags=pretags),
        Sub("reversal", body_reversal, strategy=lambda: cases(targets=toy), quick=400, thorough=20000, pretags=pretags),
        Sub("reversal_phylo", body_reversal, strategy=lambda: cases(targets=ph, phylo_max_L=30), quick=24, thorough=600, pretags=pretags),
        Sub("volume", body_volume, strategy=lambda: cases(targets=toy, max_L=12 if q else 30), quick=60, thorough=3000, pretags=pretags),
        Sub("volume_phylo", body_volume, strategy=lambda: cases(targets=ph, phylo_max_L=4), quick=8, thorough=160, pretags=pretags),
        Sub("energy", body_energy, strategy=lambda: cases(targets=toy, eps_lo=4e-3, max_L=16 if q else 30), quick=200, thorough=10000, pretags=pretags),
        Sub("energy_phylo", body_energy, strategy=lambda: cases(targets=ph, phylo_max_L=10, eps_lo=4e-3), quick=16, thorough=320, pretags=pretags),
        Sub("operator", body_operator, strategy=lambda: cases(targets=toy, operator=True), quick=400, thorough=20000, pretags=pretags),
        Sub("operator_offset", body_operator, strategy=offset_cases, quick=120, thorough=4000, pretags=pretags),
        Sub("operator_phylo", body_operator, strategy=lambda: cases(targets=ph, phylo_max_L=20, operator=True), quick=24, thorough=600, pretags=pretags),
        Sub("operator_failure", body_operator, strategy=lambda: cases(targets=("block",), operator=True, harsh=True, eps_lo=0.1), quick=60, thorough=3000, pretags=pretags),
        Sub("operator_retry", body_operator, strategy=lambda: cases(targets=("block",), operator=True, raw=True, eps_lo=0.1, max_L=10), quick=160, thorough=6000, pretags=pretags),
        Sub("operator_gibbs", body_operator, strategy=lambda: cases(targets=toy, operator=True, update=True), quick=160, thorough=6000, pretags=pretags),
        Sub("sequence", body_sequence, strategy=lambda: cases(targets=toy, update=True), quick=200, thorough=8000, pretags=pretags),
        Sub("sequence_phylo", body_sequence, strategy=lambda: cases(targets=ph, phylo_max_L=12, update=True), quick=16, thorough=400, pretags=pretags),
        Sub("retune", body_retune, strategy=lambda: cases(targets=toy, retune=True, max_L=16 if q else 30), quick=200, thorough=8000, pretags=pretags),
        Sub("retune_phylo", body_retune, strategy=lambda: cases(targets=ph, retune=True, max_L=8, phylo_max_L=8), quick=12, thorough=300, pretags=pretags),
        Sub("operator_retune", body_operator, strategy=lambda: cases(targets=toy, operator=True, retune=True, max_L=16 if q else 30), quick=240, thorough=8000, pretags=pretags),
        Sub("wide_differential", body_differential, strategy=lambda: wide_cases(max_L=16 if q else 30), quick=160, thorough=6000, pretags=pretags),
        Sub("wide_reversal", body_reversal, strategy=lambda: wide_cases(max_L=16 if q else 30), quick=120, thorough=6000, pretags=pretags),
        Sub("wide_operator", body_operator, strategy=lambda: wide_cases(operator=True, max_L=16 if q else 30), quick=240, thorough=8000, pretags=pretags),
        Sub("mixed_differential", body_differential, strategy=lambda: cases(targets=toy, mixed=True, masses=("diag", "diag", "diag", "identity", "dense")), quick=120, thorough=5000, pretags=pretags),
        Sub("mixed_reversal", body_reversal, strategy=lambda: cases(targets=toy, mixed=True, masses=("diag", "diag", "identity")), quick=120, thorough=5000, pretags=pretags),
        Sub("mixed_energy", body_energy, strategy=lambda: cases(targets=toy, mixed=True, masses=("diag", "diag", "identity"), max_L=16 if q else 30), quick=100, thorough=4000, pretags=pretags),
        Sub("mixed_operator", body_operator, strategy=lambda: cases(targets=toy, mixed=True, operator=True, masses=("diag", "diag", "identity")), quick=120, thorough=5000, pretags=pretags),
        Sub("hamiltonian", body_hamiltonian, strategy=ham_cases, quick=200, thorough=8000, pretags=ham_pretags),
    ]
