"""C02 - the likelihood is invariant to how the same tree and data are written down."""
import copy

import numpy as np
from hypothesis import strategies as st

from vt import phylo
from vt.cmp import arr
from vt.gen.basic import fl, logu
from vt.gen.trees import Topo, all_ins, names_for
from vt.runner import Res, Sub

PROPERTY = "C02"
LEVEL = "exploration"
RULE = (
    "A base case A (as in C01: generated topology, tree kind, model, site model, alignment, tip mode) and a rewriting B of the same tree and "
    "data obtained by 1-3 generated transformations: permute the Taxa list (all per-leaf quantities follow their taxon), permute the "
    "sequence list, swap children at a subset of internal nodes (per-node quantities follow their clade), permute alignment columns, repeat "
    "every column k times (value must be k x), evaluate columns separately (values must add up), tip states instead of tip partials "
    "without ambiguities, write the root as a trifurcation, and - reversible models on unrooted trees - move the root to any of the 2n-3 "
    "branches with the two root branches summing to the original length (both ways of writing the tree: lengths in the newick, explicit "
    "tensor). Oracle: L(A) = L(B) to 1e-9 relative. Non-trivial = some transformation is not the identity and the alignment has a varying "
    "column; distinct = (A, transformations). Sub-check 'all_roots' enumerates every root position of every topology for n = 3..6 "
    "(quick: n <= 5 plus a slice of n = 6)."
)
ASSUMPTIONS = [
    "SitePattern `indices` with a multi-character data type (codons) raises TypeError on the pinned tree - column selection is only implemented for one-character states; a loud rejection, so that rewriting is not generated for codon data",
    "the newick rooting comment [&U] is only written on trees the model treats as unrooted; [&R] on any tree",
    "non-reversible models are excluded from the re-rooting relation (it does not hold mathematically)",
    "the absolute value of L(A) is anchored by C01",
    "tolerance 1e-9 relative plus the measured conditioning slack of C01; cases with a branch length below 1e-14 are skipped and counted (C01's known finding)",
]

REVERSIBLE = {"JC69", "HKY", "GTR", "GeneralJC69", "GeneralSym", "LG", "WAG", "MG94"}


# ------------------------------------------------------------------ transformations on cases
def _clade_ids(topo):
    below = {i: frozenset([i]) for i in range(topo.n)}
    for node, l, r in topo.post:
        below[node] = below[l] | below[r]
    return below


def _materialise(c):
    """make the topology explicit (nested) and names explicit"""
    c = copy.deepcopy(c)
    topo = phylo.case_topo(c)
    c["topo"] = {"nested": topo.nested}
    c.setdefault("names", names_for(topo.n))
    return c


def _per_node_keys(t):
    """keys of the tree part that are indexed by node id (all nodes) / by internal node"""
    return [k for k in ("lengths",) if k in t], [k for k in ("incs", "ratios", "shifts") if k in t]


def relabel_taxa(c, sigma):
    """reorder the Taxa list: the leaf that was taxon i is now taxon sigma[i]"""
    c = _materialise(c)
    n = len(sigma)

    def rel(x):
        return [rel(x[0]), rel(x[1])] if isinstance(x, list) else sigma[x]

    c["topo"]["nested"] = rel(c["topo"]["nested"])
    names = [None] * n
    for i in range(n):
        names[sigma[i]] = c["names"][i]
    c["names"] = names
    c["cols"] = [[col[sigma.index(j)] for j in range(n)] for col in c["cols"]]
    t = c["tree"]

    def leafperm(v):  # arrays indexed by node id: first n entries are leaves
        out = list(v)
        for i in range(n):
            out[sigma[i]] = v[i]
        return out

    if "lengths" in t:
        t["lengths"] = leafperm(t["lengths"])
    if "keep" in t:
        t["keep"] = leafperm(t["keep"])
    if "tip_heights" in t:
        t["tip_heights"] = leafperm(t["tip_heights"])
    if t.get("clock", {}).get("kind") == "simple":
        t["clock"]["rates"] = leafperm(t["clock"]["rates"])
    c["seq_order"] = [sigma[i] for i in c["seq_order"]]
    return c


def swap_children(c, swaps):
    c = _materialise(c)
    A = Topo(c["topo"]["nested"])
    it = iter(swaps)

    def sw(x):
        if isinstance(x, list):
            a, b = sw(x[0]), sw(x[1])
            return [b, a] if next(it, False) else [a, b]
        return x

    nested = sw(c["topo"]["nested"])
    B = Topo(nested)
    ca, cb = _clade_ids(A), _clade_ids(B)
    inv = {v: k for k, v in cb.items()}
    amap = {a: inv[cl] for a, cl in ca.items()}  # node id in A -> node id in B
    n = A.n
    t = c["tree"]

    def allnodes(v):
        out = list(v)
        for a, b in amap.items():
            if a < len(v) and b < len(v):
                out[b] = v[a]
        return out

    def internal(v, offset=n):
        out = list(v)
        for a, b in amap.items():
            if a >= n and a - offset < len(v) and b - offset < len(v):
                out[b - offset] = v[a - offset]
        return out

    if t["kind"] == "unrooted_tensor":
        # 2n-3 entries; the node numbered 2n-3 carries no parameter (length 0).  Swapping the
        # root's children can change which root child that is: move the length accordingly.
        full = list(t["lengths"][: 2 * n - 3]) + [0.0]
        fullB = [None] * (2 * n - 2)
        for a, b in amap.items():
            if a != A.root:
                fullB[b] = full[a]
        zb = 2 * n - 3
        if fullB[zb] != 0.0:
            # the zero-length root child changed: give the whole root branch to the sibling
            l, r = B.children[B.root]
            sib = l if r == zb else r
            fullB[sib] = fullB[sib] + fullB[zb]
            fullB[zb] = 0.0
        t["lengths"] = fullB[: 2 * n - 3] + list(t["lengths"][2 * n - 3:])
    elif "lengths" in t:
        t["lengths"] = allnodes(t["lengths"])
    if "keep" in t:
        t["keep"] = allnodes(t["keep"])
    for k in ("incs", "shifts"):
        if k in t:
            t[k] = internal(t[k])
    if "ratios" in t:
        # n-2 entries for internal non-root nodes (root is always last in both numberings)
        t["ratios"] = internal(t["ratios"])
    if t.get("clock", {}).get("kind") == "simple":
        t["clock"]["rates"] = allnodes(t["clock"]["rates"])
    c["topo"]["nested"] = nested
    return c


def reroot(c, edge, frac):
    """move the root of an unrooted-tree case to the branch above node `edge` of A (an index into
    A's nodes other than the root and other than the second root child); frac splits it"""
    c = _materialise(c)
    A = Topo(c["topo"]["nested"])
    n = A.n
    t = c["tree"]
    if t["kind"] == "unrooted_newick":
        bl = {i: t["lengths"][i] for i in range(2 * n - 2)}
    else:
        bl = {i: t["lengths"][i] for i in range(2 * n - 3)}
        bl[2 * n - 3] = 0.0
    # unrooted adjacency with the two root branches merged into one edge
    adj = {}

    def link(u, v, w):
        adj.setdefault(u, {})[v] = w
        adj.setdefault(v, {})[u] = w

    r1, r2 = A.children[A.root]
    link(r1, r2, bl[r1] + bl[r2])
    for ch, par in A.parent.items():
        if par != A.root:
            link(ch, par, bl[ch])
    edges = sorted((min(u, v), max(u, v)) for u in adj for v in adj[u] if u < v)
    u, v = edges[edge % len(edges)]
    w = adj[u][v]

    def sub(x, frm):
        """nested subtree hanging from x when coming from frm, with lengths"""
        nb = [y for y in adj[x] if y != frm]
        if not nb:
            return x, {}
        (a, la), (b, lb) = [(y, adj[x][y]) for y in nb]
        na, da = sub(a, x)
        nb_, db = sub(b, x)
        d = {}
        d.update(da)
        d.update(db)
        d[_key(na)] = la
        d[_key(nb_)] = lb
        return [na, nb_], d

    nu, du = sub(u, v)
    nv, dv = sub(v, u)
    nested = [nu, nv]
    lens = {}
    lens.update(du)
    lens.update(dv)
    B = Topo(nested)
    # clade (as nested key) -> node id in B
    keyB = {}

    def walk(x):
        if isinstance(x, list):
            l = walk(x[0]); r = walk(x[1])
        k = _key(x)
        return k

    ids = {}
    cl = _clade_ids(B)
    for node, s in cl.items():
        ids[tuple(sorted(s))] = node
    lengthsB = [None] * (2 * n - 2)
    for k, val in lens.items():
        lengthsB[ids[k]] = val
    cu, cv = ids[_key(nu)], ids[_key(nv)]
    if t["kind"] == "unrooted_newick":
        lengthsB[cu] = w * frac
        lengthsB[cv] = w * (1.0 - frac)
        t["lengths"] = lengthsB
    else:
        zb = 2 * n - 3
        other = cu if cv == zb else cv
        lengthsB[zb] = 0.0
        lengthsB[other] = w
        t["lengths"] = lengthsB[: 2 * n - 3]
    c["topo"]["nested"] = nested
    return c


def _key(x):
    out = []

    def f(y):
        if isinstance(y, list):
            f(y[0]); f(y[1])
        else:
            out.append(y)

    f(x)
    return tuple(sorted(out))


def apply(c, tr):
    """-> (case B, factor) with expected L(B) = factor * L(A); or (list of cases, None) for sum_cols"""
    k = tr["kind"]
    if k == "taxa_perm":
        return relabel_taxa(c, tr["sigma"]), 1.0
    if k == "seq_perm":
        c = copy.deepcopy(c)
        c["seq_order"] = tr["order"]
        return c, 1.0
    if k == "swap":
        swaps = list(tr["swaps"])
        if c["model"]["name"] not in REVERSIBLE and c["tree"]["kind"] == "unrooted_tensor":
            # the explicit-tensor unrooted tree puts the whole root branch on one root child; which child that is
            # depends on the order of the root's children, and for a non-reversible model the position of the
            # root on that branch matters: swapping the root's children is not a rewriting of the same tree
            swaps[-1] = False
        return swap_children(c, swaps), 1.0
    if k == "col_perm":
        c = copy.deepcopy(c)
        c["cols"] = [c["cols"][i] for i in tr["order"]]
        return c, 1.0
    if k == "indices":
        # the same columns, each listed exactly once, selected through SitePattern `indices` in another order
        # and in mixed notations (non-negative / negative integers, one-column slices)
        c = copy.deepcopy(c)
        ncol = len(c["cols"])
        parts = []
        for pos, form in zip(tr["order"], tr["forms"]):
            if form == 0:
                parts.append(str(pos))
            elif form == 1:
                parts.append(str(pos - ncol))
            elif form == 2:
                parts.append("%d:%d" % (pos, pos + 1))
            else:
                parts.append("%d:%s" % (pos - ncol, "" if pos == ncol - 1 else str(pos - ncol + 1)))
        c["indices"] = ",".join(parts)
        return c, 1.0
    if k == "dup":
        c = copy.deepcopy(c)
        cols = []
        for col in c["cols"]:
            cols.extend([col] * tr["times"])
        if tr.get("interleave"):
            cols = c["cols"] * tr["times"]
        c["cols"] = cols
        return c, float(tr["times"])
    if k == "states":
        c = copy.deepcopy(c)
        c["tip"] = "states" if c["tip"] != "states" else "noamb"
        return c, 1.0
    if k == "trifurcate":
        c = copy.deepcopy(c)
        c["tree"]["trifurcate"] = not c["tree"].get("trifurcate", False)
        return c, 1.0
    if k == "reroot":
        return reroot(c, tr["edge"], tr["frac"]), 1.0
    if k == "fasta":
        c = copy.deepcopy(c)
        c["fasta"] = {"wrap": tr["wrap"], "blank": tr["blank"], "crlf": tr["crlf"], "final_newline": tr["final_newline"]}
        return c, 1.0
    if k == "annotation":
        # the newick rooting comment: [&R] anywhere, [&U] on trees the model treats as unrooted
        c = copy.deepcopy(c)
        c["newick_prefix"] = tr["prefix"] if (tr["prefix"].startswith("[&R]") or c["tree"]["kind"].startswith("unrooted")) else "[&R] "
        return c, 1.0
    raise ValueError(k)


def applicable(c, kind):
    t = c["tree"]["kind"]
    if c.get("indices") and kind in ("indices", "dup", "col_perm"):
        return False  # a column selection is already in force: positions refer to the stored alignment
    if kind == "indices" and c["family"] == "codon":
        return False  # column selection is implemented for one-character states only (TypeError otherwise: a loud rejection)
    if kind == "states":
        return c["tip"] in ("noamb", "states")
    if kind == "trifurcate":
        return t == "unrooted_newick" and phylo.case_topo(c).n >= 3
    if kind == "reroot":
        return t.startswith("unrooted") and c["model"]["name"] in REVERSIBLE
    return True


@st.composite
def pair_case(draw, force=None, families=("nucleotide", "nucleotide", "general", "aa", "codon")):
    A = draw(phylo.like_case(families=families, nmax=None))
    if force == "reroot" and not applicable(A, "reroot"):
        A["tree"] = draw(phylo.tree_part(phylo.case_topo(A).n, ("unrooted_newick", "unrooted_tensor")))
        if A["model"]["name"] == "GeneralNonSym":
            A["model"] = draw(phylo.subst_model("nucleotide", ["GTR", "HKY", "GeneralSym"])) if A["family"] == "nucleotide" else dict(A["model"], name="GeneralSym", mapping=A["model"]["mapping"][: len(A["model"]["mapping"]) // 2])
            if A["model"]["name"] == "GeneralSym" and A["family"] != "nucleotide":
                K = max(A["model"]["mapping"]) + 1
                A["model"]["rates"] = A["model"]["rates"][:K] + [1.0] * max(0, K - len(A["model"]["rates"]))
    n = phylo.case_topo(A).n
    if not A["tree"]["kind"].startswith("unrooted") and draw(st.sampled_from([False, False, True])):
        # a dated newick with its own (not clock-like) branch lengths and keep_branch_lengths
        A["tree"]["keep"] = [draw(logu(0.3, 3.0)) for _ in range(2 * n - 2)]
    ncol = len(A["cols"])
    kinds = ["taxa_perm", "seq_perm", "swap", "col_perm", "indices", "dup", "states", "trifurcate", "reroot", "reroot", "annotation", "fasta"]
    kinds = [k for k in kinds if applicable(A, k)]
    chosen = [force] if force else []
    chosen += draw(st.lists(st.sampled_from(kinds), min_size=0 if force else 1, max_size=2))
    trs = []
    for k in chosen:
        if k == "taxa_perm":
            trs.append({"kind": k, "sigma": list(draw(st.permutations(list(range(n)))))})
        elif k == "seq_perm":
            trs.append({"kind": k, "order": list(draw(st.permutations(list(range(n)))))})
        elif k == "swap":
            trs.append({"kind": k, "swaps": draw(st.lists(st.booleans(), min_size=n - 1, max_size=n - 1))})
        elif k == "col_perm":
            trs.append({"kind": k, "order": list(draw(st.permutations(list(range(ncol)))))})
        elif k == "indices":
            trs.append({"kind": k, "order": list(draw(st.permutations(list(range(ncol))))), "forms": [draw(st.integers(0, 3)) for _ in range(ncol)]})
        elif k == "dup":
            trs.append({"kind": k, "times": draw(st.integers(2, 4)), "interleave": draw(st.booleans())})
            ncol = ncol * trs[-1]["times"]
        elif k == "reroot":
            trs.append({"kind": k, "edge": draw(st.integers(0, 2 * n - 4)), "frac": draw(fl(0.01, 0.99))})
        elif k == "fasta":
            trs.append({"kind": k, "wrap": draw(st.sampled_from([0, 0, 1, 2, 3, 5, 7])), "blank": draw(st.booleans()), "crlf": draw(st.booleans()),
                        "final_newline": draw(st.booleans())})
        elif k == "annotation":
            trs.append({"kind": k, "prefix": draw(st.sampled_from(["[&U] ", "[&U]", "[&R] ", "[&U] "]))})
        else:
            trs.append({"kind": k})
    return {"A": A, "trs": trs}


def value(c):
    dic = phylo.build_like(c)
    return arr(dic["like"]())


def body(pc):
    A = pc["A"]
    B = A
    factor = 1.0
    identity = True
    for tr in pc["trs"]:
        if not applicable(B, tr["kind"]):
            continue
        before = B
        B, f = apply(B, tr)
        factor *= f
        if B != before:
            identity = False
    m = A["model"]["name"]
    kinds = sorted({tr["kind"] for tr in pc["trs"]})
    res = Res(nontrivial=(not identity) and phylo.varying_column(A), key=(A, pc["trs"]),
              labels=tuple(kinds) + (m, A["tree"]["kind"], A["tip"]),
              tags={"model": m, "tree": A["tree"]["kind"], "tip": A["tip"], "transform": kinds, "bucket": "+".join(kinds)})
    from vt.props.c01 import pretags as c01_pretags

    if c01_pretags(A)["tiny_branch"] or c01_pretags(B)["tiny_branch"]:
        # branch lengths below 1e-14: C01's known finding (P(t) rounds to the identity); not asserted here
        res.labels = res.labels + ("tiny_branch_skipped",)
        res.nontrivial = False
        return res
    va, vb = value(A), value(B)
    if va.size != 1 or vb.size != 1 or not (np.isfinite(va).all() and np.isfinite(vb).all()):
        return res.fail("nonfinite", {"A": va.tolist(), "B": vb.tolist()})
    va, vb = float(va.reshape(-1)[0]), float(vb.reshape(-1)[0])
    from vt.props.c01 import conditioning

    tol = 1e-9 * max(1.0, abs(factor * va)) + abs(factor) * conditioning(A) + conditioning(B)
    if abs(vb - factor * va) > tol:
        return res.fail("mismatch", {"L(A)": va, "L(B)": vb, "factor": factor, "rel": abs(vb - factor * va) / max(1.0, abs(factor * va)), "tol": tol})
    return res


@st.composite
def sum_case(draw):
    """columns that differ only in how 'not known' is written at one taxon (an ambiguity code, a gap, an unknown): they
    are different patterns whenever ambiguity codes are honoured and must not be merged"""
    c = draw(phylo.like_case(families=("nucleotide", "general", "general"), nmax=6))
    n = len(c["cols"][0])
    if c["family"] == "general" and not c["model"].get("amb_codes") and draw(st.booleans()):
        c["model"]["amb_codes"] = True
    if draw(st.booleans()):
        base = list(draw(st.sampled_from(c["cols"])))
        i = draw(st.integers(0, n - 1))
        codes = (["y", "x", "-", "?"] if c["model"].get("amb_codes") else ["-", "?"]) if c["family"] == "general" else ["R", "N", "-", "Y", "?"]
        variants = draw(st.lists(st.sampled_from(codes), min_size=2, max_size=3, unique=True))
        for v in variants:
            col = list(base)
            col[i] = v
            c["cols"].append(col)
        c["tip"] = draw(st.sampled_from(["amb", "amb", c["tip"]]))
    return c


def sum_body(c):
    """the weighted total over patterns equals the sum of single-column likelihoods"""
    m = c["model"]["name"]
    res = Res(nontrivial=len(c["cols"]) >= 2 and phylo.varying_column(c), key=c, labels=("sum_cols", m),
              tags={"model": m, "tree": c["tree"]["kind"], "tip": c["tip"], "bucket": "sum_cols"})
    total = float(value(c).reshape(-1)[0])
    parts = 0.0
    for col in c["cols"]:
        d = copy.deepcopy(c)
        d["cols"] = [col]
        parts += float(value(d).reshape(-1)[0])
    if abs(total - parts) > 1e-9 * max(1.0, abs(parts)):
        return res.fail("mismatch", {"total": total, "sum_of_columns": parts})
    # the same decomposition through column selections of the one stored alignment (SitePattern `indices`): a split
    # into two complementary selections written in mixed notations
    if c["family"] != "codon" and len(c["cols"]) >= 2 and not c.get("indices"):
        ncol = len(c["cols"])
        cut = 1 + (len(str(c["cols"])) % (ncol - 1))
        first = ",".join(str(j) if j % 2 else "%d:%d" % (j, j + 1) for j in range(cut))
        second = "%d:" % cut if ncol % 2 else ",".join(str(j - ncol) for j in range(cut, ncol))
        sel = sum(float(value(dict(copy.deepcopy(c), indices=ix)).reshape(-1)[0]) for ix in (first, second))
        if abs(total - sel) > 1e-9 * max(1.0, abs(total)):
            return res.fail("mismatch", {"total": total, "sum_of_selections": sel, "indices": [first, second]}, route="indices")
    return res


# ------------------------------------------------------------------ several likelihoods sharing one site pattern
@st.composite
def shared_case(draw):
    c = draw(phylo.like_case(families=("nucleotide", "nucleotide", "aa", "general"), nmax=5))
    c["modes"] = draw(st.permutations(["amb", "noamb", "states"]))[: draw(st.integers(2, 3))]
    return c


def shared_body(c):
    """one specification in which several TreeLikelihoodModels (different tip representations) refer to the
    same SitePattern / tree / models by id: each must give the value of its own stand-alone specification"""
    m = c["model"]["name"]
    res = Res(nontrivial=phylo.varying_column(c), key=(c, c["modes"]), labels=("shared",) + tuple(c["modes"]) + (m,),
              tags={"model": m, "tree": c["tree"]["kind"], "tip": "+".join(c["modes"]), "bucket": "shared"})
    spec = phylo.like_spec(dict(c, tip=c["modes"][0]))
    first = spec[-1]
    extra = []
    for i, mode in enumerate(c["modes"][1:], start=2):
        lk = {"id": "like%d" % i, "type": "TreeLikelihoodModel", "tree_model": "tree", "site_model": "site", "substitution_model": "subst", "site_pattern": "sp",
              "use_ambiguities": mode == "amb", "use_tip_states": mode == "states"}
        if "branch_model" in first:
            lk["branch_model"] = "clock"
        extra.append(lk)
    dic = {}
    for el in spec + extra:
        phylo.tt.build(el, dic)
    ids = ["like"] + ["like%d" % i for i in range(2, len(c["modes"]) + 1)]
    for lid, mode in zip(ids, c["modes"]):
        got = float(arr(dic[lid]()).reshape(-1)[0])
        alone = float(value(dict(c, tip=mode)).reshape(-1)[0])
        if abs(got - alone) > 1e-9 * max(1.0, abs(alone)):
            return res.fail("mismatch", {"mode": mode, "position": lid, "shared": got, "stand_alone": alone, "modes": list(c["modes"])})
    return res


# ------------------------------------------------------------------ every root position of every topology
def _root_cases(tier):
    import os

    seed = int(os.environ.get("VERIF_SEED", "1") or 1)
    out = []
    cnt = 0
    for n in (3, 4, 5, 6):
        L = all_ins(n)
        if tier == "quick":
            if n == 5:
                L = L[(seed % 3)::3]
            if n == 6:
                L = L[(seed % 40)::40]
        for ins in L:
            for e in range(2 * n - 3):
                out.append({"n": n, "ins": ins, "edge": e, "k": (cnt + seed) * 7919})
                cnt += 1
    return out


def expand_root_case(tc):
    from hypothesis import HealthCheck, Phase, given, seed, settings

    n = tc["n"]
    box = []

    @seed(tc["k"])
    @settings(max_examples=5, database=None, deadline=None, phases=[Phase.generate], suppress_health_check=list(HealthCheck))
    @given(st.data())
    def draw(data):
        c = {"family": "nucleotide", "topo": {"ins": tc["ins"]}}
        c["topo"]["perm"] = list(data.draw(st.permutations(list(range(n)))))
        c["topo"]["swaps"] = data.draw(st.lists(st.booleans(), min_size=n - 1, max_size=n - 1))
        c["model"] = data.draw(phylo.subst_model("nucleotide", ["HKY", "GTR", "GeneralSym"]))
        c["tree"] = data.draw(phylo.tree_part(n, ("unrooted_newick", "unrooted_tensor")))
        c["site"] = data.draw(phylo.site_model(3))
        c["cols"] = data.draw(phylo.columns(n, "nucleotide", c["model"], mincols=2, maxcols=5))
        c["tip"] = data.draw(st.sampled_from(["amb", "noamb", "states"]))
        c["seq_order"] = list(data.draw(st.permutations(list(range(n)))))
        box.append({"A": c, "trs": [{"kind": "reroot", "edge": tc["edge"], "frac": data.draw(fl(0.01, 0.99))}]})

    draw()
    return box[-1]


def pretags(pc):
    A = pc["A"]
    return {"model": A["model"]["name"], "tree": A["tree"]["kind"], "tip": A["tip"], "transform": sorted({t["kind"] for t in pc["trs"]})}


def subchecks(tier):
    return [
        Sub("rewrite", body, strategy=pair_case, quick=700, thorough=50000, pretags=pretags),
        Sub("reroot", body, strategy=lambda: pair_case(force="reroot"), quick=250, thorough=20000, pretags=pretags),
        Sub("shared", shared_body, strategy=shared_case, quick=200, thorough=10000),
        Sub("sum_cols", sum_body, strategy=sum_case, quick=120, thorough=3000),
        Sub("all_roots", body, enumerate=_root_cases, expand=expand_root_case, exhaustive=(tier == "thorough"), pretags=pretags),
    ]
