"""C08 - coalescent priors equal the Kingman density of their demographic function."""
import copy
import math

import numpy as np
import torch
from hypothesis import strategies as st

from vt import tt
from vt.cmp import arr
from vt.gen.basic import fl, logu
from vt.gen.trees import Topo, names_for
from vt.oracle import kingman as K
from vt.runner import Res, Sub, guarded

PROPERTY = "C08"
LEVEL = "exploration"
RULE = (
    "Case = (n in 2..50; sampling times contemporaneous / serial / tied on a coarse grid or continuous; coalescent times built by "
    "construction so that every coalescence has >= 2 lineages (c_j = max(c_{j-1}, s_{j+1}) + positive increment: every valid genealogy is "
    "reachable); node heights supplied in a generated permutation within the tip block and the internal block through the times/events JSON "
    "form, or through a real TimeTreeModel whose topology is drawn consistently with the times (internal indices unsorted); model in "
    "constant / exponential (growth of either sign) / skyride / skygrid (explicit grid or cutoff; points before the first coalescence and "
    "beyond the root; points on sampling times) / piecewise-linear (equal adjacent thetas drawn on purpose); parameters or heights batched "
    "[] / [B]). Oracle: Kingman integral of the documented N(t) in closed form per piece (audited against scipy quadrature in 'audit_oracle'), "
    "relative 1e-9 plus the round-off bound of the closed form; metamorphic: all pieces equal = constant model; scaling law "
    "(times, grid, theta x c, growth / c => -(n-1) log c). Non-trivial = n >= 3 and (heterochronous or a grid point strictly inside the "
    "tree). Distinct = (model, n, rounded times and parameters, route, permutation)."
)
ASSUMPTIONS = [
    "a coalescent time exactly equal to a grid point or to a sampling time is never generated (value of N at a jump / order of simultaneous events is a convention)",
    "growth rates with |g| * tree height >= 1e-3 on time scales from 1e-3 to 1e6 (g = 0 is documented as not handled: TODO in the source); the oracle's round-off bound for (e^{g b} - e^{g a})/(theta g) is added to the tolerance",
    "adjacent thetas of the piecewise-linear model are exactly equal or differ by >= 1% (the closed form log-ratio/difference is ill-conditioned in between); the oracle's round-off bound is added to the tolerance",
    "PiecewiseExponentialCoalescentGridModel documents no N(t); it is only required to evaluate (sub-check pexp_evaluates)",
]

MODELS = ["constant", "exponential", "skyride", "skygrid", "linear"]
CLS = {"constant": "ConstantCoalescentModel", "exponential": "ExponentialCoalescentModel", "skyride": "PiecewiseConstantCoalescentModel",
       "skygrid": "PiecewiseConstantCoalescentGridModel", "linear": "PiecewiseLinearCoalescentGridModel"}


# ------------------------------------------------------------------ genealogies
@st.composite
def genealogy(draw, nmin=2, nmax=50):
    n = draw(st.integers(nmin, nmax))
    mode = draw(st.sampled_from(["iso", "grid", "grid", "cont"]))
    tscale = draw(st.sampled_from([1.0, 1.0, 1.0, 1e-3, 1e3, 1e6]))  # years, generations, ...
    if mode == "iso":
        s = [0.0] * n
    elif mode == "grid":
        step = draw(st.sampled_from([0.5, 1.0, 0.25]))
        s = [draw(st.integers(0, 8)) * step for _ in range(n)]
    else:
        s = [draw(fl(0.0, 5.0)) for _ in range(n)]
    m = min(s)
    s = [x - m for x in s]
    ss = sorted(s)
    c = []
    prev = 0.0
    for j in range(1, n):
        inc = draw(logu(1e-3, 3.0))
        t = max(prev, ss[j]) + inc
        while t in s:  # no coalescence exactly at a sampling time
            t = t * (1 + 1e-7) + 1e-9
        c.append(t)
        prev = t
    if tscale != 1.0:
        s = [x * tscale for x in s]
        c = [x * tscale for x in c]
    return {"s": s, "c": c}


def draw_thetas(draw, m, equalish, tsc=1.0):
    out = []
    for i in range(m):
        if out and equalish and draw(st.integers(0, 2)) == 0:
            out.append(out[-1])
        else:
            v = draw(logu(1e-2, 1e3)) * tsc
            if out and abs(v / out[-1] - 1) < 0.01:
                v = out[-1] * 1.5
            out.append(v)
    return out


@st.composite
def demo_params(draw, model, g, allow_cutoff=True):
    s, c = g["s"], g["c"]
    n = len(s)
    root = max(c)
    p = {"model": model}
    tsc = max(root / 10.0, 1e-6)  # population sizes on the time scale of the tree
    if model == "constant":
        p["theta"] = [draw(logu(1e-2, 1e3)) * tsc]
    elif model == "exponential":
        p["theta"] = [draw(logu(1e-2, 1e3)) * tsc]
        sign = draw(st.sampled_from([-1.0, 1.0]))
        # growth is drawn relative to the time scale of the tree: |g| * root in [1e-3, 30] keeps exp(g t) in range
        # and covers tiny absolute growth rates on long time scales (years, generations)
        p["growth"] = [sign * draw(logu(1e-3, 30.0)) / root]
    elif model == "skyride":
        p["theta"] = draw_thetas(draw, n - 1, draw(st.booleans()), tsc)
    else:
        m = draw(st.integers(2, 8))
        p["theta"] = draw_thetas(draw, m, draw(st.booleans()), tsc)
        if allow_cutoff and draw(st.integers(0, 3)) == 0:
            p["cutoff"] = root * draw(st.sampled_from([0.3, 0.8, 1.013, 1.7])) * draw(fl(0.9, 1.1))
            grid = np.linspace(0, p["cutoff"], m)[1:].tolist()
        else:
            pts = set()
            while len(pts) < m - 1:
                kind = draw(st.sampled_from(["in", "in", "before", "beyond", "sampling"]))
                if kind == "in":
                    v = draw(fl(0.01, 1.0)) * root
                elif kind == "before":
                    v = draw(fl(0.05, 0.95)) * min(c)
                elif kind == "beyond":
                    v = root * (1.0 + draw(fl(0.01, 1.0)))
                else:
                    v = draw(st.sampled_from(sorted(set(s)))) or draw(fl(0.01, 1.0)) * root
                if v > 0:
                    pts.add(v)
            grid = sorted(pts)
            p["grid"] = grid
        # no coalescent time on (or within rounding distance of) a grid point
        sep = 1e-6 * max(1.0, root)

        def separated(gr):
            return all(abs(x - t) > sep for x in gr for t in c)

        if "grid" in p:
            grid = [x for x in grid]
            for i in range(len(grid)):
                while any(abs(grid[i] - t) <= sep for t in c):
                    grid[i] += 2.7 * sep
            p["grid"] = sorted(grid)
        else:
            while not separated(np.linspace(0, p["cutoff"], m)[1:].tolist()):
                p["cutoff"] *= 1.00001
    return p


@st.composite
def case(draw, models=MODELS, nmax=50, nmin=2, extreme=False):
    model = draw(st.sampled_from(list(models)))
    g = draw(genealogy(max(nmin, 3 if model == "skyride" else 2), nmax))
    p = draw(demo_params(model, g))
    if extreme:
        # population sizes far from the time scale of the tree (valid, numerically extreme): products of many of
        # them leave the floating-point range although every logarithm is ordinary
        sc = draw(logu(1e-12, 1e12))
        p["theta"] = [x * sc for x in p["theta"]]
    n = len(g["s"])
    route = draw(st.sampled_from(["times", "times", "tree"]))
    c = {"g": g, "p": p, "route": route, "perm_s": list(draw(st.permutations(list(range(n))))), "perm_c": list(draw(st.permutations(list(range(n - 1)))))}
    if route == "tree":
        # which two active lineages join at each coalescence (by position among the active ones)
        c["joins"] = [[draw(st.integers(0, 60)), draw(st.integers(0, 60))] for _ in range(n - 1)]
        c["calendar"] = draw(st.booleans())
    c["batch"] = draw(st.sampled_from([0, 0, 0, 2, 3]))
    if c["batch"]:
        c["scales"] = [draw(logu(0.2, 5.0)) for _ in range(c["batch"])]
    else:
        # several genealogies with the same sampling times evaluated in one call (node heights [B, 2n-1])
        c["hbatch"] = [draw(logu(0.3, 3.0)) for _ in range(draw(st.sampled_from([0, 0, 1, 2, 3])))]
    # every event shifted away from 0 (only expressible through the times form: a tree model puts its youngest tip at 0)
    c["offset"] = draw(st.sampled_from([0.0, 0.0, 0.0, draw(fl(0.05, 2.0)) * max(g["c"])])) if route == "times" else 0.0
    if c["offset"]:
        # the shift must not put an event on (or within rounding distance of) a grid point
        ev = [t + c["offset"] for t in g["s"] + g["c"]]
        sep = 1e-6 * max(1.0, max(ev))
        if any(abs(x - t) <= sep for x in grid_of(p) for t in ev):
            c["offset"] = 0.0
    c["as_intervals"] = route == "times" and not c["offset"] and draw(st.sampled_from([False, False, True]))
    # library use under torch's float32 default with explicitly float64 Parameters (see tt.default_dtype)
    # only through the times / intervals form: a tree model reads its sampling dates in the default dtype
    c["f32default"] = route == "times" and draw(st.sampled_from([False, False, True]))
    return c


def grid_of(p):
    if "grid" in p:
        return list(p["grid"])
    if "cutoff" in p:
        return np.linspace(0, p["cutoff"], len(p["theta"]))[1:].tolist()
    return []


def demo_of(p, coal):
    m = p["model"]
    if m == "constant":
        return K.Constant(p["theta"][0]), False
    if m == "exponential":
        return K.Exponential(p["theta"][0], p["growth"][0]), False
    if m == "skyride":
        return K.skyride(p["theta"], coal), True
    if m == "skygrid":
        return K.Piecewise(p["theta"], grid_of(p)), False
    if m == "linear":
        return K.Linear(p["theta"], grid_of(p)), False
    raise ValueError(m)


def reference(g, p):
    demo, left = demo_of(p, g["c"])
    return K.log_density(g["s"], g["c"], demo, left)


# ------------------------------------------------------------------ specification
def tree_from_joins(g, joins):
    """a topology consistent with the times: at each coalescence two active lineages join"""
    s, c = g["s"], g["c"]
    n = len(s)
    ev = sorted([(t, 0, i) for i, t in enumerate(s)] + [(t, 1, j) for j, t in enumerate(sorted(c))])
    active = []
    height = {}
    j = 0
    for t, kind, i in ev:
        if kind == 0:
            active.append(i)
        else:
            a = active.pop(joins[j][0] % len(active))
            b = active.pop(joins[j][1] % len(active))
            node = [a, b]
            height[id(node)] = t
            active.append(node)
            j += 1
    nested = active[0]
    topo = Topo(nested)
    # heights by node id: walk nested in the same post-order as Topo
    hs = {}
    stack = [(nested, False)]
    order = []
    while stack:
        x, done = stack.pop()
        if not isinstance(x, list):
            continue
        if not done:
            stack.append((x, True)); stack.append((x[1], False)); stack.append((x[0], False))
        else:
            order.append(height[id(x)])
    return topo, order  # order[k] = height of internal node n+k


def spec_of(c, theta_rows=None, times_scale=None):
    g, p = c["g"], c["p"]
    n = len(g["s"])
    m = p["model"]
    B = c.get("batch", 0)
    spec = {"id": "coal", "type": CLS[m]}

    def par(name, vals):
        if B and c["route"] == "times":
            return tt.P(name, [[v * sc if name == "theta" else v for v in vals] for sc in c["scales"]])
        return tt.P(name, vals)

    spec["theta"] = par("theta", p["theta"])
    if m == "exponential":
        spec["growth"] = tt.P("growth", p["growth"])
    if "grid" in p:
        spec["grid"] = p["grid"] if c.get("grid_as_list", True) else tt.P("grid", p["grid"])
    if "cutoff" in p:
        spec["cutoff"] = p["cutoff"]
    if c["route"] == "times" and c.get("as_intervals"):
        # the other JSON form: events in time order with the waiting times between them
        ev = sorted([(t, 1) for t in g["s"]] + [(t, 0) for t in g["c"]])
        tt_ = [t for t, _ in ev]
        spec["intervals"] = [b - a for a, b in zip(tt_[:-1], tt_[1:])]
        spec["events"] = [e for _, e in ev]
        if tt_[0] != 0.0:
            raise AssertionError("harness: the most recent sample is at time 0")
        return [spec]
    if c["route"] == "times":
        off = c.get("offset", 0.0)
        times = [g["s"][i] + off for i in c["perm_s"]] + [g["c"][i] + off for i in c["perm_c"]]
        events = [1] * n + [0] * (n - 1)
        # interleave: the JSON form accepts events in any order
        order = list(range(2 * n - 1))
        order = order[::2] + order[1::2]
        spec["times"] = [times[i] for i in order]
        spec["events"] = [events[i] for i in order]
        return [spec]
    topo, hts = tree_from_joins(g, c["joins"])
    names = names_for(n)
    if c.get("calendar") and max(g["s"]) > 0:
        top = 1990.0 + max(g["s"])
        dates = [top - x for x in g["s"]]
    else:
        dates = list(g["s"])
    taxa = {"id": "taxa", "type": "Taxa", "taxa": [{"id": names[i], "type": "Taxon", "attributes": {"date": dates[i]}} for i in range(n)]}
    tree = {"id": "tree", "type": "TimeTreeModel", "newick": topo.newick(names), "taxa": "taxa", "internal_heights": tt.P("heights", hts)}
    spec["tree_model"] = tree
    return [taxa, spec]


def evaluate(c):
    dic = {}
    for el in (tt.explicit64(spec_of(c)) if c.get("f32default") else spec_of(c)):
        tt.build(el, dic)
    return dic["coal"], dic


def tol_for(ref, err):
    return 1e-9 * max(1.0, abs(ref)) + 4.0 * err


def effective_genealogy(c):
    """sampling times as the model sees them: with calendar dates they are max(date) - date in double
    arithmetic, which differs from the generated value by a rounding error of the size of an ulp of the year"""
    g = c["g"]
    if c.get("route") == "times" and c.get("offset"):
        return {"s": [x + c["offset"] for x in g["s"]], "c": [x + c["offset"] for x in g["c"]]}
    if c.get("route") == "times" and c.get("as_intervals"):
        # the model accumulates the waiting times again
        ev = sorted([(t, 1) for t in g["s"]] + [(t, 0) for t in g["c"]])
        tt_ = [t for t, _ in ev]
        acc = np.cumsum([0.0] + [b - a for a, b in zip(tt_[:-1], tt_[1:])]).tolist()
        return {"s": [t for t, (_, e) in zip(acc, ev) if e == 1], "c": [t for t, (_, e) in zip(acc, ev) if e == 0]}
    if c.get("route") == "tree" and c.get("calendar") and max(g["s"]) > 0:
        top = 1990.0 + max(g["s"])
        dates = [top - x for x in g["s"]]
        mx = max(dates)
        return {"s": [mx - d for d in dates], "c": g["c"]}
    return g


def classify(c):
    g, p = c["g"], c["p"]
    n = len(g["s"])
    hetero = max(g["s"]) > 0
    grid = grid_of(p)
    inside = any(min(g["c"]) < x < max(g["c"]) for x in grid)
    nt = n >= 3 and (hetero or inside)
    key = (p["model"], n, [round(x, 9) for x in g["s"] + g["c"]], {k: (np.round(v, 9).tolist() if isinstance(v, list) else round(v, 9)) for k, v in p.items() if k != "model"},
           c["route"], c["perm_s"][:6], c.get("batch", 0))
    labels = [p["model"], "hetero" if hetero else "iso", c["route"], "grid_inside" if inside else "no_grid_inside", "B=%d" % c.get("batch", 0),
              "n<=5" if n <= 5 else ("n<=20" if n <= 20 else "n<=50")]
    if grid:
        if any(x > max(g["c"]) for x in grid):
            labels.append("grid_beyond_root")
        if any(x < min(g["c"]) for x in grid):
            labels.append("grid_before_first_coalescence")
        if any(a == b for a, b in zip(p["theta"][:-1], p["theta"][1:])):
            labels.append("equal_adjacent_theta")
    tags = {"cls": CLS[p["model"]], "route": c["route"], "batched": c.get("batch", 0) > 0,
            "equal_adjacent": bool(grid) and any(a == b for a, b in zip(p["theta"][:-1], p["theta"][1:]))}
    return nt, key, tuple(labels), tags


def body(c):
    with tt.default_dtype(torch.float32 if c.get("f32default") else torch.float64):
        return _body(c)


def _body(c):
    nt, key, labels, tags = classify(c)
    labels = labels + (("intervals_form",) if c.get("as_intervals") else ()) + (("default_dtype_float32",) if c.get("f32default") else ())
    tags = dict(tags, f32default=bool(c.get("f32default")), intervals=bool(c.get("as_intervals")))
    res = Res(nontrivial=nt, key=key + (bool(c.get("as_intervals")), bool(c.get("f32default"))), labels=labels, tags=tags)
    g, p = effective_genealogy(c), c["p"]
    model, dic = evaluate(c)
    if c.get("batch") and c["route"] == "times":
        # batched thetas with unbatched heights: an unsupported shape combination may raise (C10's subject)
        v, exc = guarded(model)
        if exc is not None:
            res.labels = res.labels + ("batched_raises",)
            res.nontrivial = False
            return res
        v = arr(v)
    else:
        v = arr(model())
    if c.get("batch") and c["route"] == "times":
        refs = []
        errs = []
        for sc in c["scales"]:
            pp = dict(p, theta=[x * sc for x in p["theta"]])
            r, e = reference(g, pp)
            refs.append(r); errs.append(e)
        v = v.reshape(-1)
        if v.shape != (len(refs),) or not np.isfinite(v).all():
            return res.fail("nonfinite", {"value": v.tolist(), "reference": refs})
        for b, (r, e) in enumerate(zip(refs, errs)):
            if abs(v[b] - r) > tol_for(r, e):
                return res.fail("mismatch", {"slice": b, "value": float(v[b]), "reference": r, "tol": tol_for(r, e)})
    else:
        ref, err = reference(g, p)
        if v.size != 1 or not np.isfinite(v).all():
            return res.fail("nonfinite", {"value": v.tolist(), "reference": ref})
        v = float(v.reshape(-1)[0])
        if abs(v - ref) > tol_for(ref, err):
            return res.fail("mismatch", {"value": v, "reference": ref, "tol": tol_for(ref, err)})
        # the model call is the distribution's log_prob at the node heights
        nh = model.tree_model.node_heights
        lp = arr(model.distribution().log_prob(nh)).reshape(-1)
        if lp.size != 1 or abs(float(lp[0]) - v) > 1e-12 * max(1.0, abs(v)):
            return res.fail("call_vs_log_prob", {"call": v, "log_prob": lp.tolist()})
        if c.get("hbatch"):
            batched_heights(res, c, g, p, model, nh, v)
    return res


def stretched(g, f):
    """the genealogy with every waiting increment multiplied by f (same construction as `genealogy`)"""
    ss = sorted(g["s"])
    out, prev, prev0 = [], 0.0, 0.0
    for j, t in enumerate(g["c"], start=1):
        inc = t - max(prev0, ss[j])
        prev0 = t
        prev = max(prev, ss[j]) + inc * f
        out.append(prev)
    return out


def batched_heights(res, c, g, p, model, nh, v0):
    """log_prob at node heights [B, 2n-1]: row 0 is the case's own genealogy, the others stretch its waiting times;
    every row equals its own Kingman density"""
    n = len(g["s"])
    base = arr(nh).reshape(-1)
    where = {}
    slack = 1e-12 * max(1.0, max(g["c"]))
    for pos, x in enumerate(base):
        if pos < n:
            continue  # node heights are the n sampling times followed by the n - 1 coalescent times
        for j, t in enumerate(g["c"]):
            if abs(x - t) <= slack and j not in where.values():
                where[pos] = j
                break
    if len(where) != n - 1:
        # the event times the model holds are not the specified ones
        return res.fail("node_heights_differ", {"node_heights": base.tolist(), "coalescent_times": g["c"], "sampling_times": g["s"]})
    grid = grid_of(p)
    sep = 1e-6 * max(1.0, max(g["c"]))
    rows, refs = [base], [(v0, 0.0)]
    for f in c["hbatch"]:
        cc = stretched(g, f)
        if any(abs(x - t) <= sep for x in grid for t in cc) or any(t in g["s"] for t in cc) or min(np.diff([0.0] + cc)) <= 0:
            continue
        pp = p
        if p["model"] == "exponential" and abs(p["growth"][0]) * max(cc) > 30.0:
            continue
        row = base.copy()
        for pos, j in where.items():
            row[pos] = cc[j]
        rows.append(row)
        refs.append(reference({"s": g["s"], "c": cc}, pp))
    if len(rows) < 2:
        res.labels = res.labels + ("hbatch_rows_dropped",)
        return
    order = list(range(len(rows)))
    order = order[1:] + order[:1] if len(c["hbatch"]) % 2 else order
    H = torch.tensor(np.array([rows[i] for i in order]))
    got, exc = guarded(lambda: model.distribution().log_prob(H))
    if exc is not None:
        # unbatched parameters next to batched heights may be an unsupported combination (it raises): give every
        # parameter the same leading dimension, as a sampler does
        for name in ("theta", "growth"):
            par = getattr(model, name, None)
            if par is not None:
                par.tensor = par.tensor.expand((len(rows),) + tuple(par.tensor.shape)).clone()
        got, exc = guarded(lambda: model.distribution().log_prob(H))
        res.labels = res.labels + ("hbatch_parameters_expanded",)
    if exc is not None:
        res.labels = res.labels + ("hbatch_raises",)
        return
    got = arr(got).reshape(-1)
    res.labels = res.labels + ("hbatch=%d" % len(rows),)
    if got.shape != (len(rows),) or not np.isfinite(got).all():
        return res.fail("nonfinite", {"what": "batched node heights", "value": got.tolist(), "reference": [refs[i][0] for i in order]}, hbatch=True)
    for k, i in enumerate(order):
        r, e = refs[i]
        if abs(got[k] - r) > tol_for(r, e) + (1e-12 * max(1.0, abs(r)) if i == 0 else 0.0):
            return res.fail("mismatch", {"what": "batched node heights", "row": k, "value": float(got[k]), "reference": r, "tol": tol_for(r, e), "rows": len(rows)}, hbatch=True)


# ------------------------------------------------------------------ metamorphic relations
@st.composite
def equal_case(draw):
    model = draw(st.sampled_from(["skyride", "skygrid", "linear"]))
    g = draw(genealogy(3, 30))
    p = draw(demo_params(model, g))
    th = draw(logu(1e-2, 1e3))
    p["theta"] = [th] * len(p["theta"])
    n = len(g["s"])
    return {"g": g, "p": p, "route": "times", "perm_s": list(draw(st.permutations(list(range(n))))), "perm_c": list(draw(st.permutations(list(range(n - 1))))), "batch": 0}


def equal_body(c):
    nt, key, labels, tags = classify(c)
    res = Res(nontrivial=len(c["g"]["s"]) >= 3, key=key, labels=labels + ("all_equal",), tags=dict(tags, relation="all_equal"))
    model, _ = evaluate(c)
    v = float(arr(model()).reshape(-1)[0])
    cc = copy.deepcopy(c)
    cc["p"] = {"model": "constant", "theta": [c["p"]["theta"][0]]}
    const, _ = evaluate(cc)
    w = float(arr(const()).reshape(-1)[0])
    if abs(v - w) > 1e-9 * max(1.0, abs(w)):
        return res.fail("mismatch", {"model": v, "constant_model": w})
    return res


@st.composite
def scale_case(draw):
    c = draw(case(nmax=30))
    c["batch"] = 0
    c["factor"] = draw(logu(1e-2, 1e2))
    return c


def scale_body(c):
    nt, key, labels, tags = classify(c)
    f = c["factor"]
    res = Res(nontrivial=nt, key=(key, round(f, 9)), labels=labels + ("scaling",), tags=dict(tags, relation="scaling"))
    g, p = c["g"], c["p"]
    n = len(g["s"])
    model, _ = evaluate(c)
    v = float(arr(model()).reshape(-1)[0])
    cc = copy.deepcopy(c)
    cc["g"] = {"s": [x * f for x in g["s"]], "c": [x * f for x in g["c"]]}
    cc["offset"] = c.get("offset", 0.0) * f
    pp = cc["p"]
    pp["theta"] = [x * f for x in p["theta"]]
    if "growth" in pp:
        pp["growth"] = [x / f for x in p["growth"]]
    if "grid" in pp:
        pp["grid"] = [x * f for x in p["grid"]]
    if "cutoff" in pp:
        pp["cutoff"] = p["cutoff"] * f
    m2, _ = evaluate(cc)
    w = float(arr(m2()).reshape(-1)[0])
    want = v - (n - 1) * math.log(f)
    def nominal(x):
        off = x.get("offset", 0.0) if x.get("route") == "times" else 0.0
        return {"s": [t + off for t in x["g"]["s"]], "c": [t + off for t in x["g"]["c"]]}

    r1, err = reference(nominal(c), p)
    r2, err2 = reference(nominal(cc), pp)
    # calendar dates: each model sees max(date) - date in double arithmetic, a rounding of the sampling times that is
    # not the same relative size before and after scaling; its effect on either value is measured with the oracle
    cal = abs(reference(effective_genealogy(c), p)[0] - r1) + abs(reference(effective_genealogy(cc), pp)[0] - r2)
    if abs(w - want) > 4e-9 * max(1.0, abs(want), abs(v)) + 8 * (err + err2) + 2.0 * cal:
        return res.fail("mismatch", {"scaled": w, "expected": want, "factor": f})
    return res


def audit_body(c):
    g, p = c["g"], c["p"]
    demo, left = demo_of(p, g["c"])
    a, err = K.log_density(g["s"], g["c"], demo, left)
    b = K.log_density_quad(g["s"], g["c"], demo, left)
    if abs(a - b) > 1e-9 * max(1.0, abs(a)) + 4 * err:
        raise AssertionError("oracle audit: closed form %r vs quadrature %r for %r" % (a, b, p))
    nt, key, labels, tags = classify(c)
    return Res(nontrivial=nt, key=key, labels=("audit", p["model"]), tags={"cls": "oracle"})


def pexp_body(c):
    """the piecewise-exponential model documents no N(t): it is only required to evaluate to a finite number
    when built the way its from_json and the CLI build it"""
    g = c["g"]
    n = len(g["s"])
    m = c["m"]
    res = Res(nontrivial=n >= 3, key=(n, m, [round(x, 9) for x in g["c"]]), labels=("pexp",), tags={"cls": "PiecewiseExponentialCoalescentGridModel"})
    spec = {"id": "coal", "type": "PiecewiseExponentialCoalescentGridModel", "theta": tt.P("theta", c["theta"]), "growth": tt.P("growth", c["growth"]),
            "cutoff": max(g["c"]) * 0.9, "times": g["s"] + g["c"], "events": [1] * n + [0] * (n - 1)}
    model, dic = tt.build(spec)
    v = arr(model())
    if not np.isfinite(v).all():
        return res.fail("nonfinite", {"value": v.tolist()})
    return res


@st.composite
def pexp_case(draw):
    g = draw(genealogy(3, 12))
    m = draw(st.integers(2, 5))
    return {"g": g, "m": m, "theta": [draw(logu(0.1, 100)) for _ in range(m)], "growth": [draw(fl(-1, 1)) for _ in range(m)]}


def pretags(c):
    if "m" in c:
        return {"cls": "PiecewiseExponentialCoalescentGridModel"}
    p = c["p"]
    grid = grid_of(p)
    return {"cls": CLS[p["model"]], "route": c["route"], "batched": c.get("batch", 0) > 0,
            "equal_adjacent": bool(grid) and any(a == b for a, b in zip(p["theta"][:-1], p["theta"][1:]))}


def subchecks(tier):
    return [
        Sub("absolute", body, strategy=case, quick=1200, thorough=80000, pretags=pretags),
        Sub("extreme_sizes", body, strategy=lambda: case(models=["constant", "skyride", "skyride", "skygrid", "linear", "exponential"], nmin=30, nmax=120, extreme=True),
            quick=150, thorough=6000, pretags=pretags),
        Sub("all_equal", equal_body, strategy=equal_case, quick=200, thorough=12000, pretags=pretags),
        Sub("scaling", scale_body, strategy=scale_case, quick=300, thorough=15000, pretags=pretags),
        Sub("pexp_evaluates", pexp_body, strategy=pexp_case, quick=20, thorough=100, pretags=pretags),
        Sub("audit_oracle", audit_body, strategy=lambda: case(nmax=12), quick=40, thorough=400),
    ]
