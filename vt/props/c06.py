"""C06 - node-height parameterisations yield a valid time tree and are invertible."""
import copy
import re

import numpy as np
import torch
from hypothesis import strategies as st

from vt import phylo, tt
from vt.cmp import arr, maxabs
from vt.gen.basic import fl, logu
from vt.gen.trees import Topo, all_ins, names_for, topology
from vt.runner import Res, Sub

PROPERTY = "C06"
LEVEL = "exploration"
RULE = (
    "Case = (labelled rooted topology; sampling dates isochronous / heterochronous / tied, written as ages or calendar dates; "
    "parameterisation ratios+root height or shifts; parameter values in the open domain; batch [] or [B]; route: model built from JSON, "
    "`keep_branch_lengths` initialisation from a dated newick, or the transform object used directly). Oracle: (i) index-free validity "
    "predicate on the model's own newick output (same clade sets as the input, root height minus path length = sampling time for every "
    "tip, all branches >= 0); (ii) heights and branch lengths equal an independent numpy implementation of the documented maps, under the "
    "documented index convention, parents never younger than children; (iii) inverse(forward(x)) = x and forward(inverse(h)) = h, batched "
    "= per slice; (iv) after .cpu() / .to(dtype) the same parameter values give the same heights (parameterisation unchanged). "
    "Non-trivial = heterochronous dates or n >= 4 (device clause: shift parameterisation). Distinct = (clade sets, dates, kind, rounded "
    "values, batch, route). 'all_topologies' enumerates every labelled rooted topology for n = 3..6."
)
ASSUMPTIONS = [
    "no CUDA device in the sandbox: the device clause is exercised through .cpu() and .to(dtype) only",
    "ratios in [0.01, 0.99], increments in [1e-3, 5]; tolerance 1e-9 absolute on heights of magnitude <= 100 (1e-4 after .to(float32))",
]

NUM = r"[-+]?[0-9]*\.?[0-9]+(?:[eE][-+]?[0-9]+)?"


def parse_newick(s):
    """tiny newick parser -> (nested of names, dict clade(frozenset names) -> branch length)"""
    s = s.strip().rstrip(";")
    pos = [0]
    lengths = {}

    def node():
        if s[pos[0]] == "(":
            pos[0] += 1
            kids = [node()]
            while s[pos[0]] == ",":
                pos[0] += 1
                kids.append(node())
            assert s[pos[0]] == ")", s[pos[0]:]
            pos[0] += 1
            clade = frozenset().union(*[k[1] for k in kids])
            val = [k[0] for k in kids]
        else:
            m = re.match(r"[^():,;]+", s[pos[0]:])
            name = m.group(0)
            pos[0] += len(name)
            clade = frozenset([name])
            val = name
        if pos[0] < len(s) and s[pos[0]] == ":":
            m = re.match(NUM, s[pos[0] + 1:])
            lengths[clade] = float(m.group(0))
            pos[0] += 1 + len(m.group(0))
        return val, clade

    nested, _ = node()
    return nested, lengths


def newick_checks(res, newick, topo, names, tip_h, root_h, tol):
    nested, lens = parse_newick(newick)
    want = {frozenset(names[i] for i in cl) for cl in topo.clades()}
    got = {cl for cl in lens if len(cl) > 1} | {frozenset(names)}
    if got != want:
        res.fail("newick_clades", {"newick": newick[:300]})
        return
    if any(v < -tol for v in lens.values()):
        res.fail("negative_branch", {"newick": newick[:300]})
        return
    # height of a tip = root height - path length
    for i in range(topo.n):
        path = sum(v for cl, v in lens.items() if names[i] in cl)
        if abs((root_h - path) - tip_h[i]) > tol * max(1.0, root_h):
            res.fail("tip_not_at_sampling_time", {"tip": names[i], "height_from_newick": root_h - path, "sampling_time": tip_h[i]})
            return


@st.composite
def case(draw, nmax=12, force_batch=None):
    topo = draw(topology(3, nmax))
    n = len(topo["perm"])
    t = draw(phylo.tree_part(n, ("ratio", "shift")))
    t.pop("clock", None)
    B = draw(st.sampled_from([0, 0, 1, 2, 3])) if force_batch is None else force_batch
    extra = []
    for _ in range(max(0, B - 1)):
        e = draw(phylo.tree_part(n, (t["kind"],)))
        extra.append({k: e[k] for k in ("ratios", "root_inc", "shifts") if k in e})
    return {"topo": topo, "tree": t, "B": B, "extra": extra, "route": draw(st.sampled_from(["json", "json", "keep", "transform"])),
            "int_dates": draw(st.booleans()), "neg_dates": draw(st.sampled_from([False, False, True]))}


def slices(c):
    """list of single-sample cases (tree part variants)"""
    out = [c["tree"]]
    for e in c["extra"]:
        t = copy.deepcopy(c["tree"])
        t.update(e)
        out.append(t)
    return out


def geometry(c, t):
    cc = {"topo": c["topo"], "tree": dict(t, clock={"kind": "strict", "rate": 1.0})}
    return phylo.tree_geometry(cc)


def params_tensor(c, hs, n):
    """parameter values for each slice: (ratios, root_height) or shifts"""
    rows = []
    for t, h in hs:
        if t["kind"] == "ratio":
            rows.append((t["ratios"], [h[2 * n - 2]]))
        else:
            rows.append((t["shifts"], None))
    return rows


def tree_spec(c, names, dates, topo, rows, keep_newick=None):
    kind = c["tree"]["kind"]
    B = c["B"]
    if c.get("neg_dates") and max(c["tree"]["tip_heights"]) > 0:
        # time measured back from the most recent sample: dates <= 0 with maximum exactly 0
        dates = [-float(h) if h else 0.0 for h in c["tree"]["tip_heights"]]
    if c.get("int_dates"):
        # whole-number dates written the way people write them (2011, not 2011.0)
        dates = [int(d) if float(d).is_integer() else d for d in dates]
    taxa = {"id": "taxa", "type": "Taxa", "taxa": [{"id": names[i], "type": "Taxon", "attributes": {"date": dates[i]}} for i in range(topo.n)]}
    spec = {"id": "tree", "type": "ReparameterizedTimeTreeModel", "newick": keep_newick or topo.newick(names), "taxa": taxa}
    if keep_newick:
        spec["keep_branch_lengths"] = True

    def shaped(vals):
        return vals[0] if B == 0 else vals

    if kind == "ratio":
        spec["ratios"] = tt.P("ratios", shaped([r[0] for r in rows]))
        spec["root_height"] = tt.P("root_height", shaped([r[1] for r in rows]))
    else:
        spec["shifts"] = tt.P("shifts", shaped([r[0] for r in rows]))
    if c.get("wrapped"):
        # the way the command-line tools write them: constrained parameters as transforms of unconstrained ones
        def wrap(pid, transform, inv):
            vals = np.asarray(spec[pid]["tensor"], dtype=float)
            spec[pid] = {"id": pid, "type": "TransformedParameter", "transform": transform, "x": tt.P(pid + ".unres", inv(vals).tolist())}

        if kind == "ratio":
            wrap("ratios", "torch.distributions.SigmoidTransform", lambda v: np.log(v) - np.log1p(-v))
            wrap("root_height", "torch.distributions.ExpTransform", np.log)
        else:
            wrap("shifts", "torch.distributions.ExpTransform", np.log)
    return spec


def body(c):
    topo = phylo.case_topo(c)
    n = topo.n
    sl = slices(c) if c["B"] else [c["tree"]]
    geo = [geometry(c, t) for t in sl]
    names, dates = geo[0][1], geo[0][2]
    hs = [(t, g[4]) for t, g in zip(sl, geo)]
    tip_h = c["tree"]["tip_heights"]
    hetero = max(tip_h) > 0
    kind = c["tree"]["kind"]
    res = Res(nontrivial=hetero or n >= 4,
              key=(sorted(sorted(x) for x in topo.clades()), tip_h, c["tree"]["calendar"], kind, c["B"], c["route"], [np.round(list(h.values()), 6).tolist() for _, h in hs]),
              labels=(kind, "hetero" if hetero else "iso", "B=%d" % c["B"], c["route"], "calendar" if c["tree"]["calendar"] else "ages", "n=%d" % n),
              tags={"cls": kind, "route": c["route"], "batched": c["B"] > 0})
    rows = params_tensor(c, hs, n)
    want_h = np.array([[h[i] for i in range(2 * n - 1)] for _, h in hs])  # [B', 2n-1]
    tol = 1e-9 * max(1.0, float(want_h.max()))
    route = c["route"]
    if route == "keep":
        # initialise from a dated newick: lengths = height differences of slice 0
        h0 = hs[0][1]
        lens = {ch: h0[par] - h0[ch] for ch, par in topo.parent.items()}
        if min(lens.values()) < 2e-6:
            # documented: branches shorter than eps = 1e-6 are lengthened by the initialisation
            route = "json"
            res.labels = res.labels + ("keep_skipped_short_branch",)
    if route == "keep":
        spec = tree_spec(dict(c, B=0), names, dates, topo, rows[:1], keep_newick=topo.newick(names, lens))
        # start the parameters somewhere else: they must be overwritten by the initialisation
        if kind == "ratio":
            spec["ratios"]["tensor"] = [0.5] * (n - 2)
            spec["root_height"]["tensor"] = [max(tip_h) + 1.0]
        else:
            spec["shifts"]["tensor"] = [0.1] * (n - 1)
        tree, dic = tt.build(spec)
        want = want_h[:1]
        B = 0
    else:
        spec = tree_spec(c, names, dates, topo, rows)
        tree, dic = tt.build(spec)
        want = want_h
        B = c["B"]
    if route == "transform":
        # the transform object used directly
        x = tree._internal_heights.tensor
        y = tree.transform(x)
        got = np.concatenate([np.broadcast_to(np.array(tip_h), y.shape[:-1] + (n,)), arr(y)], -1)
    else:
        got = arr(tree.node_heights)
    got2 = got.reshape(-1, 2 * n - 1) if got.size == want.size else got
    if maxabs(got2, want) > tol:
        return res.fail("heights", {"got": np.asarray(got).tolist(), "want": want.tolist()})
    # index-aware structure: parents not younger than children; branch = parent - child
    bl = arr(tree.branch_lengths()).reshape(-1, 2 * n - 2)
    for b in range(want.shape[0]):
        for ch, par in topo.parent.items():
            if want[b][par] < want[b][ch] - tol:
                raise AssertionError("oracle produced an invalid tree")
            if abs(bl[b][ch] - (got2[b][par] - got2[b][ch])) > tol or bl[b][ch] < -tol:
                return res.fail("branch_lengths", {"node": ch, "branch": float(bl[b][ch]), "parent_height": float(got2[b][par]), "height": float(got2[b][ch])})
    # index-free validity through the model's own newick (unbatched models)
    if B == 0:
        newick_checks(res, tree.as_newick(), topo, names, tip_h, float(got2[0][2 * n - 2]), 1e-9)
        if res.fails:
            return res
    # inverse round trips
    tr = tree.transform
    x = tree._internal_heights.tensor
    y = tr(x)
    xi = tr.inv(y)
    # conditioning of the ratio inverse: (h - bound) / (h_parent - bound) with absolute round-off ~ eps * H
    H = max(1.0, float(want_h.max()))
    den = H
    if kind == "ratio":
        bound = {i: tip_h[i] for i in range(n)}
        for node, l, r in topo.post:
            bound[node] = max(bound[l], bound[r])
        den = min([h[par] - bound[ch] for _, h in hs for ch, par in topo.parent.items() if ch >= n] + [H])
    if den < 1e-7 * H:
        # differences between heights are lost in double precision: the inverse is not defined numerically
        res.labels = res.labels + ("inverse_skipped_illconditioned",)
        return res
    inv_tol = 1e-9 * H + 1e-14 * H / den
    if maxabs(xi, x) > inv_tol or tuple(xi.shape) != tuple(x.shape):
        return res.fail("inverse_of_forward", {"x": arr(x).tolist(), "inv": arr(xi).tolist(), "tol": inv_tol})
    yi = tr(tr.inv(torch.tensor(want[:, n:] if B else want[0, n:])))
    if maxabs(yi, want[:, n:] if B else want[0, n:]) > tol:
        return res.fail("forward_of_inverse", {"h": want[:, n:].tolist(), "got": arr(yi).tolist()})
    if B:
        # batched = per slice
        for b in range(want.shape[0]):
            yb = tr(x[b])
            if maxabs(yb, arr(y)[b]) > 0:
                return res.fail("batched_vs_slice", {"slice": b})
    return res


def device_body(c):
    """.cpu() / .to(dtype) followed by a parameter update: same parameterisation"""
    topo = phylo.case_topo(c)
    n = topo.n
    sl = slices(c)
    geo = [geometry(c, t) for t in sl]
    names, dates = geo[0][1], geo[0][2]
    hs = [(t, g[4]) for t, g in zip(sl, geo)]
    kind = c["tree"]["kind"]
    op = c["op"]
    res = Res(nontrivial=kind == "shift" or op.startswith("inplace") or bool(c.get("wrapped")), key=(sorted(sorted(x) for x in topo.clades()), kind, op, bool(c.get("wrapped")), c["tree"]["tip_heights"], [np.round(list(h.values()), 6).tolist() for _, h in hs]),
              labels=(kind, op) + (("transformed_parameters",) if c.get("wrapped") else ()), tags={"cls": kind, "op": op, "wrapped": bool(c.get("wrapped"))})
    rows = params_tensor(c, hs, n)
    tree, dic = tt.build(tree_spec(dict(c, B=0), names, dates, topo, rows[:1]))
    _ = tree.node_heights
    dt = torch.float64
    if op == "cpu":
        tree.cpu()
    elif op == "to32":
        tree.to(torch.float32)
        dt = torch.float32
    elif op == "to64":
        tree.to(torch.float32)
        tree.to(torch.float64)
    # update the parameters to the second slice's values
    if op in ("inplace", "inplace_twice"):
        # what the optimiser does: modify the tensors in place, then notify
        for _ in range(2 if op == "inplace_twice" else 1):
            with torch.no_grad():
                if kind == "ratio":
                    dic["ratios"].tensor.copy_(torch.tensor(rows[1][0], dtype=dt))
                    dic["root_height"].tensor.copy_(torch.tensor(rows[1][1], dtype=dt))
                else:
                    dic["shifts"].tensor.copy_(torch.tensor(rows[1][0], dtype=dt))
            for pid in (("ratios", "root_height") if kind == "ratio" else ("shifts",)):
                dic[pid].fire_parameter_changed()
            _ = tree.node_heights
    elif kind == "ratio":
        dic["ratios"].tensor = torch.tensor(rows[1][0], dtype=dt)
        dic["root_height"].tensor = torch.tensor(rows[1][1], dtype=dt)
    else:
        dic["shifts"].tensor = torch.tensor(rows[1][0], dtype=dt)
    want = np.array([hs[1][1][i] for i in range(2 * n - 1)])
    got = arr(tree.node_heights).reshape(-1)
    tol = (1e-4 if op == "to32" else (1e-7 if c.get("wrapped") else 1e-9)) * max(1.0, float(want.max()))
    if maxabs(got, want) > tol:
        return res.fail("parameterisation_changed", {"got": got.tolist(), "want": want.tolist()}, wrapped=bool(c.get("wrapped")))
    return res


@st.composite
def device_case(draw):
    c = draw(case(nmax=8, force_batch=2))
    c["op"] = draw(st.sampled_from(["cpu", "cpu", "to32", "to64", "inplace", "inplace", "inplace_twice"]))
    c["wrapped"] = c["op"] in ("cpu", "to32", "to64") and draw(st.booleans())
    return c


def smooth_body(c):
    """DifferenceNodeHeightTransform with the smooth maximum (k > 0) used directly: forward map equals
    h_i = logsumexp(k * children heights) / k + shift_i (documented), inverse returns the shifts, batched = per slice"""
    from torchtree.evolution.tree_height_transform import DifferenceNodeHeightTransform

    topo = phylo.case_topo(c)
    n = topo.n
    sl = slices(c) if c["B"] else [c["tree"]]
    geo = geometry(c, sl[0])
    names, dates = geo[1], geo[2]
    tip_h = c["tree"]["tip_heights"]
    k = c["k"]
    res = Res(nontrivial=abs(k - 1.0) > 1e-6, key=(sorted(sorted(x) for x in topo.clades()), tip_h, round(k, 6), c["B"], [np.round(t["shifts"], 6).tolist() for t in sl]),
              labels=("smooth", "B=%d" % c["B"], "k<=0" if k <= 0 else ("k<1" if k < 1 else "k>1")), tags={"cls": "shift_smooth", "batched": c["B"] > 0})
    rows = [(t["shifts"], None) for t in sl]
    tree, dic = tt.build(tree_spec(dict(c, B=0), names, dates, topo, rows[:1]))
    tr = DifferenceNodeHeightTransform(tree, k)
    x = torch.tensor([r[0] for r in rows]) if c["B"] else torch.tensor(rows[0][0])
    y = tr(x)
    want = []
    for shifts, _ in rows:
        h = {i: tip_h[i] for i in range(n)}
        for node, l, r in topo.post:
            m = max(h[l], h[r])
            # k <= 0 is documented as the exact maximum
            h[node] = m + (np.log(np.exp(k * (h[l] - m)) + np.exp(k * (h[r] - m))) / k if k > 0 else 0.0) + shifts[node - n]
        want.append([h[i] for i in range(n, 2 * n - 1)])
    want = np.array(want if c["B"] else want[0])
    tol = 1e-9 * max(1.0, float(np.max(want)))
    if maxabs(y, want) > tol:
        return res.fail("smooth_forward", {"got": arr(y).tolist(), "want": want.tolist(), "k": k})
    xi = tr.inv(torch.tensor(want))
    if maxabs(xi, arr(x)) > 1e-8 * max(1.0, float(np.max(want))) or tuple(xi.shape) != tuple(x.shape):
        return res.fail("smooth_inverse", {"x": arr(x).tolist(), "inv": arr(xi).tolist(), "k": k})
    # ---- the same transform installed in the model: a device move / dtype round trip keeps it in force
    move = c.get("move", "none")
    res.labels = res.labels + ("move=" + move,)
    res.tags["op"] = move
    tree.transform = tr
    dic["shifts"].tensor = torch.tensor(rows[-1][0])
    first = arr(tree.node_heights).reshape(-1)[n:]
    if move == "cpu":
        tree.cpu()
    elif move == "to64":
        tree.to(torch.float32)
        tree.to(torch.float64)
    dic["shifts"].tensor = torch.tensor(rows[-1][0], dtype=torch.float64)
    after = arr(tree.node_heights).reshape(-1)[n:]
    w = np.array(want[-1] if c["B"] else want)
    mtol = (1e-4 if move == "to64" else 1e-9) * max(1.0, float(np.max(w)))
    if maxabs(first, w) > tol or maxabs(after, w) > mtol:
        return res.fail("parameterisation_changed", {"before_move": first.tolist(), "after_move": after.tolist(), "want": w.tolist(), "k": k, "move": move})
    return res


@st.composite
def smooth_case(draw):
    c = draw(case(nmax=10))
    n = len(c["topo"]["perm"])
    t = draw(phylo.tree_part(n, ("shift",)))
    t.pop("clock", None)
    c["tree"] = t
    c["extra"] = [{"shifts": draw(phylo.tree_part(n, ("shift",)))["shifts"]} for _ in range(max(0, c["B"] - 1))]
    c["k"] = draw(st.sampled_from([0.5, 2.0, 5.0, 20.0, draw(logu(0.2, 50.0)), draw(logu(0.2, 50.0)), 0.0, -1.0, -draw(logu(0.2, 50.0))]))
    c["move"] = draw(st.sampled_from(["none", "cpu", "cpu", "to64"]))
    return c


def float32_body(c):
    """the same specification loaded while the default dtype is float32 (the library's default; torchtree's
    main sets it from --dtype): every tip must still sit at its sampling time to single precision *of the
    height*, and heights / branch lengths must follow"""
    topo = phylo.case_topo(c)
    n = topo.n
    g = geometry(c, c["tree"])
    names, dates, h = g[1], g[2], g[4]
    tip_h = c["tree"]["tip_heights"]
    kind = c["tree"]["kind"]
    res = Res(nontrivial=max(tip_h) > 0 and c["tree"]["calendar"], key=(sorted(sorted(x) for x in topo.clades()), [round(x, 9) for x in tip_h], c["tree"]["calendar"], kind),
              labels=("float32", kind, "calendar" if c["tree"]["calendar"] else "ages"), tags={"cls": kind, "dtype": "float32"})
    rows = params_tensor(c, [(c["tree"], h)], n)
    old = torch.get_default_dtype()
    torch.set_default_dtype(torch.float32)
    try:
        tree, dic = tt.build(tree_spec(dict(c, B=0), names, dates, topo, rows[:1]))
        got = arr(tree.node_heights).reshape(-1)
        bl = arr(tree.branch_lengths()).reshape(-1)
    finally:
        torch.set_default_dtype(old)
    H = max(1.0, max(h.values()))
    tips = got[:n]
    if maxabs(tips, np.array(tip_h)) > 2e-6 * max(1.0, max(tip_h)):
        return res.fail("tip_not_at_sampling_time_float32", {"got": tips.tolist(), "want": tip_h, "dates": dates})
    want = np.array([h[i] for i in range(2 * n - 1)])
    if maxabs(got, want) > 2e-5 * H:
        return res.fail("heights_float32", {"got": got.tolist(), "want": want.tolist()})
    return res


@st.composite
def float32_case(draw):
    c = draw(case(nmax=10, force_batch=0))
    return c


def topo_cases(tier):
    import os

    seed = int(os.environ.get("VERIF_SEED", "1") or 1)
    out = []
    cnt = 0
    for n in (3, 4, 5, 6):
        L = all_ins(n)
        if tier == "quick" and n == 6:
            L = L[(seed % 4)::4]
        for ins in L:
            out.append({"n": n, "ins": ins, "k": (cnt + seed) * 7919})
            cnt += 1
    return out


def expand_topo(tc):
    from hypothesis import HealthCheck, Phase, given, seed, settings

    n = tc["n"]
    box = []

    @seed(tc["k"])
    @settings(max_examples=5, database=None, deadline=None, phases=[Phase.generate], suppress_health_check=list(HealthCheck))
    @given(st.data())
    def draw(data):
        topo = {"ins": tc["ins"], "perm": list(data.draw(st.permutations(list(range(n))))), "swaps": data.draw(st.lists(st.booleans(), min_size=n - 1, max_size=n - 1))}
        t = data.draw(phylo.tree_part(n, ("ratio", "shift")))
        t.pop("clock", None)
        B = data.draw(st.sampled_from([0, 2]))
        extra = []
        if B:
            e = data.draw(phylo.tree_part(n, (t["kind"],)))
            extra.append({k: e[k] for k in ("ratios", "root_inc", "shifts") if k in e})
        box.append({"topo": topo, "tree": t, "B": B, "extra": extra, "route": data.draw(st.sampled_from(["json", "keep", "transform"]))})

    draw()
    return box[-1]


def pretags(c):
    return {"cls": c["tree"]["kind"], "route": c.get("route"), "batched": c.get("B", 0) > 0}


def subchecks(tier):
    return [
        Sub("random", body, strategy=lambda: case(nmax=40), quick=600, thorough=40000, pretags=pretags),
        Sub("all_topologies", body, enumerate=topo_cases, expand=expand_topo, exhaustive=(tier == "thorough"), pretags=pretags),
        Sub("device_dtype", device_body, strategy=device_case, quick=300, thorough=10000, pretags=pretags),
        Sub("float32", float32_body, strategy=float32_case, quick=200, thorough=8000, pretags=pretags),
        Sub("smooth_shift", smooth_body, strategy=smooth_case, quick=200, thorough=8000, pretags=pretags),
    ]
